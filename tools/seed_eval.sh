#!/bin/sh
# usage: tools/seed_eval.sh <dir-with-<id>/patch.diff,demo.py> <id>...   -- validate each seeded change (tests pass, demo fails with / passes
# without the patch) and run the property's quick check against it, all in the scratch worktree /tmp/wt/<id> (never in /repo)
D=$1; shift
cd "$(dirname "$0")/.."
for ID in "$@"; do
  echo "=== $ID"
  tools/validate_seed.sh $ID $D/$ID 2>&1 | grep -E "passed|failed|exit=|APPLY" | tr '\n' ' '; echo
  tools/run_in_worktree.sh $D/$ID/patch.diff $ID /tmp/wt/$ID 4 2>&1 | cut -c1-260
done
