#!/usr/bin/env python3
"""apply a seeded patch to /repo, run the given checks (quick tier, no evidence), revert.
usage: tools/run_seeded.py <patch.diff> <property-id> [more ids ...] [--tier thorough]"""
import subprocess, sys, os
args = [a for a in sys.argv[1:] if not a.startswith("--")]
tier = "thorough" if "--tier" in sys.argv and sys.argv[sys.argv.index("--tier") + 1] == "thorough" else "quick"
args = [a for a in args if a != "thorough" and a != "quick"]
patch, props = args[0], args[1:]
HERE = os.path.dirname(os.path.dirname(os.path.abspath(__file__)))
st = subprocess.run(["git", "-C", "/repo", "status", "--short"], capture_output=True, text=True).stdout.strip()
if st:
    sys.exit("refusing: /repo working tree is not clean:\n" + st)
r = subprocess.run(["git", "-C", "/repo", "apply", patch], capture_output=True, text=True)
if r.returncode:
    sys.exit("patch does not apply: " + r.stderr)
try:
    for p in props:
        out = subprocess.run([os.path.join(HERE, "check"), p, "--tier", tier, "--no-evidence"], capture_output=True, text=True, cwd=HERE)
        lines = out.stdout.splitlines()
        head = lines[0] if lines else ""
        viol = [l for l in lines if l.startswith("VIOLATION")]
        det = [l for l in lines if l.startswith("  unit=")]
        inc = [l for l in lines if l.startswith("INCONCLUSIVE")]
        print(f"== {p} exit={out.returncode} {head}")
        for l in det[:6]:
            print("   ", l[:260])
        for l in inc[:4]:
            print("   ", l[:260])
finally:
    subprocess.run(["git", "-C", "/repo", "checkout", "--", "."])
    print("reverted:", subprocess.run(["git", "-C", "/repo", "status", "--short"], capture_output=True, text=True).stdout.strip() or "clean")
