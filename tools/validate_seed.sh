#!/bin/sh
# usage: tools/validate_seed.sh <property-id> [<seed-dir>]   (scratch worktree: /tmp/wt/<id>)
ID=$1; DIR=${2:-/tmp/mut/$ID}; WT=/tmp/wt/$ID
[ -d "$WT" ] || git -C /repo worktree add -q --detach "$WT" HEAD
cd "$WT" || exit 2
git checkout -q -- . ; git clean -fdq
git apply "$DIR/patch.diff" || { echo "PATCH DOES NOT APPLY"; exit 2; }
echo "--- tests with patch:"; /venv/bin/python -m pytest -q -p no:cacheprovider tests 2>&1 | tail -1
echo "--- demo with patch:"; PYTHONPATH="$WT" /venv/bin/python "$DIR/demo.py" > /tmp/demo_$ID.out 2>&1; echo "exit=$?"; tail -3 /tmp/demo_$ID.out | cut -c1-200
git checkout -q -- .
echo "--- demo without patch:"; PYTHONPATH="$WT" /venv/bin/python "$DIR/demo.py" > /tmp/demo_$ID.out 2>&1; echo "exit=$?"
git status --short | head -3
