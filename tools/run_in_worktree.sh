#!/bin/sh
# usage: tools/run_in_worktree.sh <patch.diff> <property-id> [worktree]   -- applies the patch in a scratch worktree of /repo
# (default /tmp/wt/<id>), runs the property's quick check against that tree (VERIF_REPO), reverts the worktree. /repo is untouched.
PATCH=$1; ID=$2; WT=${3:-/tmp/wt/$ID}
cd "$(dirname "$0")/.."
[ -d "$WT" ] || git -C /repo worktree add -q --detach "$WT" HEAD
git -C "$WT" checkout -q -- . && git -C "$WT" apply "$PATCH" || { echo "patch does not apply"; exit 3; }
VERIF_REPO="$WT" ./check "$ID" --tier quick --no-evidence > /tmp/wtrun_$ID.log 2>&1; rc=$?
git -C "$WT" checkout -q -- .
echo "== $ID exit=$rc $(head -1 /tmp/wtrun_$ID.log | cut -c1-130)"
grep -E "^VIOLATION|^  unit=|^INCONCLUSIVE" /tmp/wtrun_$ID.log | cut -c1-260 | head -${4:-6}
exit $rc
