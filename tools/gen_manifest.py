#!/usr/bin/env python3
"""regenerates /verif/MANIFEST.json from the harness modules' metadata"""
import ast, json, os, sys
HERE = os.path.dirname(os.path.dirname(os.path.abspath(__file__)))
PROPS = [f"C{i:02d}" for i in range(1, 21)]

def meta(path):
    tree = ast.parse(open(path).read())
    out = {}
    for node in tree.body:
        if isinstance(node, ast.Assign) and len(node.targets) == 1 and isinstance(node.targets[0], ast.Name):
            try:
                out[node.targets[0].id] = ast.literal_eval(node.value)
            except Exception:
                pass
    return out

NA = json.load(open(os.path.join(HERE, "tools", "not_applicable.json")))
checks, na = [], []
for p in PROPS:
    f = os.path.join(HERE, "harness", p.lower() + ".py")
    if p in NA and not os.path.exists(f):
        na.append({"property_id": p, "reason": NA[p]}); continue
    if not os.path.exists(f):
        na.append({"property_id": p, "reason": "check not built yet in this session (planned in DESIGN.md); nothing is claimed for it"}); continue
    m = meta(f)
    b = m.get("BOUNDS", {})
    checks.append({
        "property_id": p,
        "quick_cmd": f"./check {p} --tier quick",
        "thorough_cmd": f"./check {p} --tier thorough",
        "evidence_file": f"/verif/evidence/{p}.json",
        "replay_cmd_template": f"./check {p} --replay {{path}}",
        "engine": "symnp",
        "level_claimed": {
            "category": "other",
            "text": m.get("LEVEL_TEXT") or ("Bounded solver-based verification of the real code: " + m.get("EXPLANATION", "") + f" Bounds: quick {b.get('quick')}; thorough {b.get('thorough')}. Within the bounds every assertion is decided for all real-valued inputs by the SMT solver (unsat = holds); nothing is claimed outside them."),
            "design_ref": m.get("DESIGN_REF", f"DESIGN.md section 4 ({p}, plan) and section 10.4 (as built)"),
        },
        "level_note": m.get("LEVEL_NOTE") or ("Assumes: " + "; ".join(m.get("ASSUMPTIONS", [])) + ". Trusted: z3/nlsat, the symnp engine, numpy object-dtype loops; stubs listed in the evidence file are contracts."),
        "technique": m.get("TECHNIQUE", "symbolic execution of the real Python/numpy code on z3-backed proxies; per-path SMT queries (z3 nlsat, UF abstraction + axiom instances); counterexamples replayed on floats"),
    })
man = {
    "version": 1,
    "setup_cmd": "./setup.sh",
    "hooks": {"guard": "INFERENCE_TOOLS_VERIF", "enable": "no source hooks: all stubs are injected from outside by the harness at import time (module attribute replacement)", "baseline_off_cmd": "cd /repo && /venv/bin/python -m pytest -ra -q -p no:cacheprovider --timeout=900 --continue-on-collection-errors", "source_commits": [], "add_only": True},
    "engines": [
        {"name": "symnp", "path": "/verif/symnp", "serves_properties": [c["property_id"] for c in checks], "kind_free_text": "symbolic execution of the real numpy code by proxy injection (z3 terms in object arrays), path forking at __bool__, Ackermann abstraction + axiom instances, z3 qfnra-nlsat, symbolic differentiation, float replay"},
    ],
    "checks": checks,
    "not_applicable": na,
    "notes": "All checks: exit 0 held / 1 reproduced violation (VIOLATION line) / 2 inconclusive. Known findings: /verif/known_findings.txt.",
}
json.dump(man, open(os.path.join(HERE, "MANIFEST.json"), "w"), indent=1)
print("MANIFEST.json:", len(checks), "checks,", len(na), "not applicable")
