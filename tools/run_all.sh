#!/bin/sh
# runs every claimed check (default: quick tier) and prints one line per check; writes the evidence files
TIER=${1:-quick}
cd "$(dirname "$0")/.."
for p in $(python3 -c "import json;print(' '.join(c['property_id'] for c in json.load(open('MANIFEST.json'))['checks']))"); do
  s=$(date +%s)
  ./check $p --tier $TIER > /tmp/runall_$p.log 2>&1; rc=$?
  e=$(date +%s)
  echo "$p exit=$rc $((e-s))s $(head -1 /tmp/runall_$p.log | cut -c1-120)"
done
