"""prototype: operator-overloading symbolic execution of numpy code on object arrays"""
import z3, numpy as np, time, itertools

class PathAbort(BaseException): pass

class Ctx:
    cur = None
    def __init__(self, timeout_ms=20000):
        self.solver = z3.Solver(); self.solver.set('timeout', timeout_ms)
        self.pc = []          # path condition
        self.decisions = []   # list of bools taken
        self.preset = []      # decisions to replay
        self.side = []        # side constraints (definitions of fresh vars)
        self.nfresh = 0
        self.queries = 0; self.solver_s = 0.0
    def fresh(self, prefix, sort='R'):
        self.nfresh += 1
        n = f'{prefix}!{self.nfresh}'
        return z3.Real(n) if sort=='R' else z3.Int(n)
    def check(self, *extra):
        t=time.time(); self.queries+=1
        r = self.solver.check(*self.side, *self.pc, *extra)
        self.solver_s += time.time()-t
        return r
    def branch(self, cond):
        cond = z3.simplify(cond)
        if z3.is_true(cond): return True
        if z3.is_false(cond): return False
        i = len(self.decisions)
        if i < len(self.preset):
            d = self.preset[i]
        else:
            can_t = self.check(cond) != z3.unsat
            can_f = self.check(z3.Not(cond)) != z3.unsat
            if can_t and can_f:
                d = True
                self.pending.append(self.decisions + [False])
            elif can_t: d = True
            elif can_f: d = False
            else: raise PathAbort('infeasible')
        self.decisions.append(d)
        self.pc.append(cond if d else z3.Not(cond))
        return d

def explore(fn, max_paths=1000, timeout_ms=20000):
    """run fn() under every feasible path; fn returns anything; yield (ctx, result)"""
    pending = [[]]
    out = []
    while pending and len(out) < max_paths:
        preset = pending.pop()
        ctx = Ctx(timeout_ms); ctx.preset = preset; ctx.pending = pending
        Ctx.cur = ctx
        try:
            res = fn()
            out.append((ctx, res, None))
        except PathAbort as e:
            pass
        except Exception as e:
            out.append((ctx, None, e))
    return out, pending

def R(x):
    if isinstance(x, SymReal): return x.e
    if isinstance(x, (bool, np.bool_)): return z3.RealVal(int(x))
    if isinstance(x, (int, np.integer)): return z3.RealVal(int(x))
    if isinstance(x, (float, np.floating)):
        from fractions import Fraction
        f = Fraction(float(x)); return z3.RealVal(f"{f.numerator}/{f.denominator}")
    raise TypeError(type(x))

class SymBool:
    def __init__(self, e): self.e = e
    def __bool__(self): return Ctx.cur.branch(self.e)
    def __and__(self, o): return SymBool(z3.And(self.e, B(o)))
    __rand__ = __and__
    def __or__(self, o): return SymBool(z3.Or(self.e, B(o)))
    __ror__ = __or__
    def __invert__(self): return SymBool(z3.Not(self.e))
    def __xor__(self, o): return SymBool(z3.Xor(self.e, B(o)))
def B(x):
    if isinstance(x, SymBool): return x.e
    return z3.BoolVal(bool(x))

class SymReal:
    def __init__(self, e): self.e = e
    def __repr__(self): return f'S({self.e})'
    def __add__(s,o):
        if isinstance(o,np.ndarray): return NotImplemented
        return SymReal(s.e + R(o))
    def __radd__(s,o):
        if isinstance(o,np.ndarray): return NotImplemented
        return SymReal(R(o) + s.e)
    def __sub__(s,o):
        if isinstance(o,np.ndarray): return NotImplemented
        return SymReal(s.e - R(o))
    def __rsub__(s,o):
        if isinstance(o,np.ndarray): return NotImplemented
        return SymReal(R(o) - s.e)
    def __mul__(s,o):
        if isinstance(o,np.ndarray): return NotImplemented
        return SymReal(s.e * R(o))
    def __rmul__(s,o):
        if isinstance(o,np.ndarray): return NotImplemented
        return SymReal(R(o) * s.e)
    def __truediv__(s,o):
        if isinstance(o,np.ndarray): return NotImplemented
        return SymReal(s.e / R(o))
    def __rtruediv__(s,o):
        if isinstance(o,np.ndarray): return NotImplemented
        return SymReal(R(o) / s.e)
    def __neg__(s): return SymReal(-s.e)
    def __pos__(s): return s
    def __abs__(s): return SymReal(z3.If(s.e >= 0, s.e, -s.e))
    def __pow__(s,o):
        if isinstance(o,(int,np.integer)) or (isinstance(o,float) and o==int(o)):
            o=int(o)
            if o>=0:
                r=z3.RealVal(1)
                for _ in range(o): r=r*s.e
                return SymReal(r)
            return SymReal(1/ (s**(-o)).e)
        raise NotImplementedError('pow')
    def _floordiv(s, o):
        c = Ctx.cur
        a, b = s.e, R(o)
        q = c.fresh('q','I')
        # floor(a/b) for b>0: q*b <= a < (q+1)*b ; b<0 reversed
        qr = z3.ToReal(q)
        c.side.append(z3.If(b>0, z3.And(qr*b <= a, a < (qr+1)*b), z3.And(qr*b >= a, a > (qr+1)*b)))
        return qr
    def __floordiv__(s,o): return SymReal(s._floordiv(o))
    def __mod__(s,o):
        if isinstance(o,(int,np.integer)) and isinstance(s.e, z3.ArithRef) and getattr(s,'isint',False):
            pass
        q = s._floordiv(o); return SymReal(s.e - q*R(o))
    def __divmod__(s,o):
        q = s._floordiv(o); r = SymReal(s.e - q*R(o)); qq=SymReal(q); qq.isint=True; return qq, r
    def __lt__(s,o): return SymBool(s.e < R(o))
    def __le__(s,o): return SymBool(s.e <= R(o))
    def __gt__(s,o): return SymBool(s.e > R(o))
    def __ge__(s,o): return SymBool(s.e >= R(o))
    def __eq__(s,o): return SymBool(s.e == R(o))
    def __ne__(s,o): return SymBool(s.e != R(o))
    __hash__ = None

def sym(name): return SymReal(z3.Real(name))
def symarr(name, *shape):
    a = np.empty(shape, dtype=object)
    for idx in itertools.product(*map(range, shape)):
        a[idx] = sym(name + ''.join(f'_{i}' for i in idx))
    return a

# ---- array subclass with ufunc fallbacks
import operator
def _exp(x): return x.exp() if isinstance(x, SymReal) else np.exp(x)
PYIMPL = {
    np.divmod: (divmod, 2, 2),
    np.floor_divide: (operator.floordiv, 2, 1),
    np.remainder: (operator.mod, 2, 1),
}
class SymArray(np.ndarray):
    def __array_ufunc__(self, ufunc, method, *inputs, **kw):
        ins = [np.asarray(i).view(np.ndarray) if isinstance(i, np.ndarray) else i for i in inputs]
        kw.pop('out', None) if kw.get('out') is None else None
        if ufunc in PYIMPL and method == '__call__':
            f, nin, nout = PYIMPL[ufunc]
            res = np.frompyfunc(f, nin, nout)(*ins)
        else:
            res = getattr(ufunc, method)(*ins, **kw)
        if isinstance(res, tuple): return tuple(np.asarray(r, dtype=object).view(SymArray) if isinstance(r,np.ndarray) else r for r in res)
        return res.view(SymArray) if isinstance(res, np.ndarray) else res
def symarr(name, *shape):
    a = np.empty(shape, dtype=object)
    for idx in itertools.product(*map(range, shape)):
        a[idx] = sym(name + ''.join(f'_{i}' for i in idx))
    return a.view(SymArray)

# ---- transcendental functions as uninterpreted functions
_exp = z3.Function('exp', z3.RealSort(), z3.RealSort())
_log = z3.Function('log', z3.RealSort(), z3.RealSort())
_sqrt = z3.Function('sqrt', z3.RealSort(), z3.RealSort())
def _m_exp(s):
    c = Ctx.cur; a = z3.simplify(s.e)
    if z3.is_app_of(a, z3.Z3_OP_UNINTERPRETED) and a.decl().name()=='log': return SymReal(a.arg(0))
    t = _exp(a); c.side.append(t > 0); return SymReal(t)
def _m_log(s):
    c = Ctx.cur; a = z3.simplify(s.e)
    if z3.is_app_of(a, z3.Z3_OP_UNINTERPRETED) and a.decl().name()=='exp': return SymReal(a.arg(0))
    return SymReal(_log(a))
def _m_sqrt(s):
    c = Ctx.cur; a = z3.simplify(s.e)
    t = _sqrt(a); c.side.append(z3.Implies(a >= 0, z3.And(t >= 0, t*t == a))); return SymReal(t)
SymReal.exp = _m_exp; SymReal.log = _m_log; SymReal.sqrt = _m_sqrt

def stub_cholesky(K):
    n = K.shape[0]; L = np.zeros((n,n), dtype=object)
    for i in range(n):
        for j in range(i+1):
            s = K[i,j] - sum(L[i,k]*L[j,k] for k in range(j))
            if i == j:
                if not (s > 0): raise np.linalg.LinAlgError('not PD')
                L[i,j] = s.sqrt() if isinstance(s, SymReal) else np.sqrt(s)
            else:
                L[i,j] = s / L[j,j]
    return L
def stub_solve_triangular(a, b, lower=False, **kw):
    a = np.asarray(a); b = np.asarray(b); n = a.shape[0]
    bb = b.reshape(n, -1).astype(object); x = np.zeros_like(bb)
    rng = range(n) if lower else range(n-1, -1, -1)
    for i in rng:
        ks = range(i) if lower else range(i+1, n)
        x[i,:] = (bb[i,:] - sum(a[i,k]*x[k,:] for k in ks)) / a[i,i]
    return x.reshape(b.shape)
SymReal.conjugate = lambda s: s
SymReal.conj = lambda s: s
