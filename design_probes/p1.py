import sys; sys.path.insert(0,'/tmp/probe')
from symex import *
from inference.mcmc.utilities import Bounds
import time
def run(d):
    def fn():
        lo, up, th = symarr('lo',d), symarr('up',d), symarr('th',d)
        b = Bounds(lo, up)
        r = b.reflect(th)
        return lo, up, th, r
    t=time.time()
    outs, pend = explore(fn)
    print('paths', len(outs), 'pending', len(pend), time.time()-t)
    for ctx,res,err in outs:
        if err: print('ERR', type(err), str(err)[:100].replace('\n',' '), ctx.decisions); continue
        lo,up,th,r = res
        viol = z3.Or(*[z3.Or(r[i].e < lo[i].e, r[i].e > up[i].e) for i in range(d)])
        t=time.time()
        print(ctx.decisions, ctx.check(viol), time.time()-t, 'queries', ctx.queries)
run(1); run(2)
