import sys, time; sys.path.insert(0,'/tmp/probe')
from symex import *
import inference.approx.conditional as C
def plain(name,*shape): return np.asarray(symarr(name,*shape)).view(np.ndarray)
class Rng:
    def __init__(s): s.rec={}
    def choice(s, n, size=None, p=None):
        s.rec['p']=p; return np.array([1]*size)
    def random(s, size=None):
        u=plain('u',size); 
        for e in u: Ctx.cur.side += [e.e>=0, e.e<=1]
        s.rec['u']=u; return u
C.zeros = lambda shape, **k: np.zeros(shape, dtype=object)
def fn():
    c=Ctx.cur; C.rng = Rng()
    x = plain('x',3); p = plain('p',3)
    c.side += [x[0].e<x[1].e, x[1].e<x[2].e] + [v.e>0 for v in p]
    out = C.piecewise_linear_sample(x, p, 1)
    return x,p,out,C.rng.rec
t=time.time()
outs,pend=explore(fn, max_paths=200)
print('paths',len(outs),round(time.time()-t,2))
for ctx,res,err in outs:
    if err: print('ERR',type(err),str(err)[:300]); continue
    x,p,out,rec=res
    w=rec['p']; 
    mass=[(p[k]+p[k+1])*0.5*(x[k+1]-x[k]) for k in range(2)]
    tot=mass[0]+mass[1]
    bad = z3.Or(*[ (w[k]*tot).e != mass[k].e for k in range(2)])
    r=ctx.check(bad); print(ctx.decisions,'weights∝mass:',r, ctx.solver.model() if r==z3.sat else '')
    inb = z3.Or(out[0].e < x[1].e, out[0].e > x[2].e)
    print('in-cell:', ctx.check(inb))
