import sys, time; sys.path.insert(0,'/tmp/probe')
from symex import *
import inference.pdf.kde as K
def plain(name,*shape): return np.asarray(symarr(name,*shape)).view(np.ndarray)
def sym_int(x):
    if not isinstance(x, SymReal): return int(x)
    c = Ctx.cur
    for v in range(-1, 4):
        if c.branch(z3.And(x.e >= v, x.e < v+1)): return v
    raise PathAbort('int range')
K.int = sym_int
K.zeros = lambda shape, **k: np.zeros(shape, dtype=object)
_erf = z3.Function('erf', z3.RealSort(), z3.RealSort())
K.erf = np.frompyfunc(lambda v: SymReal(_erf(R(v))), 1, 1)
K.minimize_scalar = lambda f, bounds=None, method=None: type('R',(),{'x':bounds[0]})()
def fn():
    c=Ctx.cur
    s = plain('s',3); h=sym('h'); x=sym('x')
    c.side += [h.e>0, s[0].e < s[1].e, s[1].e< s[2].e]
    # range/h in [1,4): layers n in {1,2}
    c.side += [(s[2].e-s[0].e) >= h.e, (s[2].e-s[0].e) < 4*h.e]
    k = K.GaussianKDE(s, bandwidth=h)
    return k, k(np.array([x],dtype=object))
t=time.time()
outs,pend=explore(fn, max_paths=3000)
from collections import Counter
print('paths',len(outs),'pend',len(pend),round(time.time()-t,2))
print(Counter((type(e).__name__+str(e)[:150]) if e else 'ok' for _,_,e in outs))
