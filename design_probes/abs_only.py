def abstract(exprs):
    apps={}; seen=set()
    def walk(e):
        if e.get_id() in seen: return
        seen.add(e.get_id())
        if z3.is_app(e):
            for c in e.children(): walk(c)
            if e.decl().kind()==z3.Z3_OP_UNINTERPRETED and e.num_args()>0: apps[e.get_id()]=e
    for e in exprs: walk(e)
    sub=[(a, z3.Real(f'atom{i}')) for i,a in enumerate(apps.values())]
    def ab(e):
        for _ in range(10):
            e2=z3.substitute(e,*sub)
            if e2.eq(e): break
            e=e2
        return e
    return ab, sub
