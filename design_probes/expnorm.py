import z3
from fractions import Fraction
from symex import *
from ax import F
def _islog(t): return z3.is_app(t) and t.decl().kind()==z3.Z3_OP_UNINTERPRETED and t.decl().name()=='log'
def _coef_term(t):
    """split t into (rational coef, rest) if t = c*rest"""
    if z3.is_app(t) and t.decl().kind()==z3.Z3_OP_MUL and t.num_args()==2 and z3.is_rational_value(t.arg(0)):
        c=t.arg(0); return Fraction(c.numerator_as_long(), c.denominator_as_long()), t.arg(1)
    return Fraction(1), t
def norm_exp(s):
    a = z3.simplify(s.e, som=True)
    terms = a.children() if (z3.is_app(a) and a.decl().kind()==z3.Z3_OP_ADD) else [a]
    out = z3.RealVal(1)
    for t in terms:
        c, r = _coef_term(t)
        if _islog(r):
            u = r.arg(0)
            if c.denominator==1:
                n=c.numerator; p=z3.RealVal(1)
                for _ in range(abs(n)): p=p*u
                out = out*p if n>=0 else out/p
                continue
            if c.denominator==2:
                sq = F['sqrt'](u); n=c.numerator; p=z3.RealVal(1)
                for _ in range(abs(n)): p=p*sq
                out = out*p if n>=0 else out/p
                continue
        if z3.is_rational_value(t) and t.numerator_as_long()==0: continue
        out = out*F['exp'](t)
    return SymReal(z3.simplify(out))
def norm_log(s):
    a = z3.simplify(s.e)
    Ctx.cur.side.append(a > 0)      # definedness assumption (recorded)
    if z3.is_app(a) and a.decl().kind()==z3.Z3_OP_UNINTERPRETED and a.decl().name()=='exp': return SymReal(a.arg(0))
    return SymReal(F['log'](a))
SymReal.exp = norm_exp; SymReal.log = norm_log
_old_pow = SymReal.__pow__
def _pow(s, o):
    if isinstance(o, SymReal): return (o * s.log()).exp()
    return _old_pow(s, o)
def _rpow(s, o): return (s * SymReal(R(o)).log()).exp()
SymReal.__pow__ = _pow; SymReal.__rpow__ = _rpow
_otd, _ortd = SymReal.__truediv__, SymReal.__rtruediv__
def _td(s,o):
    if isinstance(o,np.ndarray): return NotImplemented
    if isinstance(o,SymReal): Ctx.cur.side.append(o.e != 0)
    return _otd(s,o)
def _rtd(s,o):
    if isinstance(o,np.ndarray): return NotImplemented
    Ctx.cur.side.append(s.e != 0)
    return _ortd(s,o)
SymReal.__truediv__=_td; SymReal.__rtruediv__=_rtd
