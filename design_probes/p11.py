import sys, time; sys.path.insert(0,'/tmp/probe')
from ax import *
import expnorm
import inference.gp.acquisition as A
# named constants: map floats
import math
NAMED = {1/math.sqrt(2*math.pi): 1/(SQRT2*SQRTPI), 1/math.sqrt(2): 1/SQRT2, math.sqrt(0.5*math.pi): SQRTPI/SQRT2}
LN2PI = F['log'](2*PI)
NAMED[math.log(2*math.pi)] = LN2PI
import symex
_R = symex.R
def R2(x):
    if isinstance(x,(float,np.floating)) and float(x) in NAMED: return NAMED[float(x)]
    return _R(x)
symex.R = R2
for k in list(vars(symex.SymReal)):
    pass
def lift(name, npf):
    return lambda v: getattr(v,name)() if isinstance(v,SymReal) else npf(v)
import scipy.special as sp
A.erf = lift('erf', sp.erf); A.erfcx = lift('erfcx', sp.erfcx)
A.exp = lift('exp', np.exp); A.log = lift('log', np.log)
class GP:
    def __init__(s): s.mu=sym('mu'); s.var=sym('var'); s.y=np.array([0.0])
    def __call__(s, x): return [s.mu], [s.var.sqrt()]
def run(branch):
    ctx=Ctx(); Ctx.cur=ctx; ctx.pending=[]
    ei = A.ExpectedImprovement(); ei.gp=GP(); ei.mu_max=sym('ymax')
    ctx.side.append(ei.gp.var.e>0)
    ctx.preset=[branch]
    val = ei(None)
    sig = ei.gp.var.sqrt(); Z=(ei.gp.mu-ei.mu_max)/sig
    ref = sig*(Z*(0.5*(1+SymReal(F['erf']((Z/SymReal(SQRT2)).e)))) + (-0.5*Z*Z).exp()/SymReal(SQRT2*SQRTPI))
    # LN2PI = log(2*pi): exp(-LN2PI/2) = 1/sqrt(2pi): supply as constant axiom via atom
    extra=[]
    t=time.time(); r=prove(ctx, val.e != ref.e, extra, 120000); print('branch Z<-3' if branch else 'branch Z>=-3', r[0], 'atoms', r[1], round(time.time()-t,2), ctx.decisions)
    if r[2] is not None: print(r[2])
run(False); run(True)
