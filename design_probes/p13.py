import sys, time; sys.path.insert(0,'/tmp/probe')
from ax import *
import ax
from inference.mcmc.hmc import HamiltonianChain
def plain(name,*shape): return np.asarray(symarr(name,*shape)).view(np.ndarray)
def det(M):
    m=len(M)
    if m==1: return M[0][0]
    return z3.Sum([((-1)**j)*M[0][j]*det([row[:j]+row[j+1:] for row in M[1:]]) for j in range(m)])
def run(d, nsteps):
    ctx=Ctx(); Ctx.cur=ctx; ctx.pending=[]
    RSs=[RS]*d
    Lf = z3.Function('Lp', *RSs, RS)
    G = [z3.Function(f'g{i}', *RSs, RS) for i in range(d)]
    Hs = {}
    for i in range(d):
        for j in range(i,d): Hs[(i,j)]=z3.Function(f'H{i}{j}', *RSs, RS)
    ax.DERIV['Lp'] = lambda e: [G[i](*e.children()) for i in range(d)]
    for i in range(d):
        ax.DERIV[f'g{i}'] = (lambda i: lambda e: [Hs[(min(i,j),max(i,j))](*e.children()) for j in range(d)])(i)
    grad = lambda t: np.array([SymReal(G[i](*[R(v) for v in t])) for i in range(d)],dtype=object)
    post = lambda t: SymReal(Lf(*[R(v) for v in t]))
    ch = HamiltonianChain(lambda t: 0.0, np.zeros(d), grad=grad, inverse_mass=np.ones(d), display_progress=False)
    ch.posterior = post
    eps=sym('eps'); ch.ES.epsilon=eps; ch.inv_temp=sym('beta'); ch.mass.inv_mass=plain('im',d)
    t0,r0=plain('t',d),plain('r',d)
    t1,r1=ch.run_leapfrog(t0.copy(), r0.copy(), nsteps)
    ins=[v.e for v in t0]+[v.e for v in r0]; outs=[v.e for v in t1]+[v.e for v in r1]
    t=time.time()
    J=[[diff(o,i) for i in ins] for o in outs]
    r=prove(ctx, det(J)!=1, timeout=200000); print(d,nsteps,'volume',r[0],'atoms',r[1],round(time.time()-t,2)); sys.stdout.flush()
    dH = ch.hamiltonian(t1,r1) - ch.hamiltonian(t0,r0)
    e0 = dH.e
    t=time.time()
    for order in range(3):
        at0 = z3.simplify(z3.substitute(e0,(eps.e,z3.RealVal(0))))
        r=prove(ctx, at0!=0, timeout=200000); print(d,nsteps,f'd^{order}(dH)/deps^{order} at 0',r[0],'atoms',r[1],round(time.time()-t,2)); sys.stdout.flush()
        e0 = diff(e0, eps.e)
run(1,1); run(1,2); run(2,2)
