import sys, time; sys.path.insert(0,'/tmp/probe')
from ax import *
def plain(name,*shape): return np.asarray(symarr(name,*shape)).view(np.ndarray)
def run(nd,npar):
    ctx=Ctx(); Ctx.cur=ctx; ctx.pending=[]
    Ls=plain('L',npar,npar); L=np.zeros((npar,npar),dtype=object)
    for i in range(npar):
        for j in range(i+1): L[i,j]=Ls[i,j]
        ctx.side.append(Ls[i,i].e>0)
    K=L@L.T; A=plain('A',nd,npar); e=plain('e',nd)
    for v in e: ctx.side.append(v.e>0)
    iS=np.diag(e**-2) if False else np.diag(1/(e*e)); S=np.diag(e*e)
    W=A.T@iS@A
    X=plain('X',npar,npar)
    hyp=(np.eye(npar)+K@W)@X-K
    iL=stub_solve_triangular(L, np.eye(npar), lower=True); iK=iL.T@iL
    con=(iK+W)@X-np.eye(npar)
    cert=iK@hyp
    t=time.time(); r=prove(ctx, z3.Or(*[a.e!=b.e for a,b in zip(con.ravel(),cert.ravel())]), timeout=200000); print(nd,npar,'cert (c)',r[0],round(time.time()-t,2)); sys.stdout.flush()
    WJ=plain('WJ',nd,nd); J=A@K@A.T+S
    Sref=K-K@A.T@WJ@A@K
    lhs=(np.eye(npar)+K@W)@Sref-K
    rhs=K@A.T@iS@(np.eye(nd)-J@WJ)@A@K
    t=time.time(); r=prove(ctx, z3.Or(*[a.e!=b.e for a,b in zip(lhs.ravel(),rhs.ravel())]), timeout=200000); print(nd,npar,'cert (d) Woodbury',r[0],round(time.time()-t,2)); sys.stdout.flush()
run(2,2); run(3,2); run(2,3); run(3,3)
