"""abstraction + guarded axiom instances + differentiation (prototype)"""
import z3, itertools
from symex import *
RS = z3.RealSort()
F = {n: z3.Function(n, RS, RS) for n in ['exp','log','sqrt','erf','erfcx','tanh']}
DERIV = {}   # uf name -> function(app) -> list of partial derivative terms wrt each arg
def uf_apps(exprs):
    apps={}; seen=set()
    def walk(e):
        if e.get_id() in seen: return
        seen.add(e.get_id())
        if z3.is_app(e):
            for c in e.children(): walk(c)
            if e.decl().kind()==z3.Z3_OP_UNINTERPRETED and e.num_args()>0: apps[e.get_id()]=e
    for e in exprs: walk(e)
    return list(apps.values())
def abstract(exprs):
    apps = uf_apps(exprs)
    sub=[(a, z3.Real(f'@{a.decl().name()}{i}')) for i,a in enumerate(apps)]
    def ab(e):
        for _ in range(20):
            e2=z3.substitute(e,*sub)
            if e2.eq(e): break
            e=e2
        return e
    return ab, sub
def axioms(sub, ab):
    ax=[]
    by={}
    for a,v in sub: by.setdefault(a.decl().name(),[]).append((a,v))
    A=lambda a,i=0: ab(a.arg(i))
    for name,lst in by.items():
        for (a,va),(b,vb) in itertools.combinations(lst,2):
            ax.append(z3.Implies(z3.And(*[A(a,i)==A(b,i) for i in range(a.num_args())]), va==vb))
    for a,va in by.get('exp',[]):
        ax += [va>0, z3.Implies(A(a)==0, va==1), va >= 1 + A(a)]
    for (a,va),(b,vb) in itertools.combinations(by.get('exp',[]),2):
        ax += [z3.Implies(A(a)+A(b)==0, va*vb==1), z3.Implies(A(a)<A(b), va<vb), z3.Implies(A(a)>A(b), va>vb)]
    for (a,va),(b,vb),(c,vc) in itertools.permutations(by.get('exp',[]),3):
        if b.get_id()<c.get_id(): ax.append(z3.Implies(A(a)==A(b)+A(c), va==vb*vc))
    for a,va in by.get('sqrt',[]):
        ax.append(z3.Implies(A(a)>=0, z3.And(va>=0, va*va==A(a))))
    for a,va in by.get('log',[]):
        ax.append(z3.Implies(A(a)==1, va==0))
        for b,vb in by.get('exp',[]):
            ax.append(z3.Implies(A(b)==va, vb==A(a)))
            ax.append(z3.Implies(z3.And(A(a)==vb), va==A(b)))
    for (a,va),(b,vb) in itertools.combinations(by.get('log',[]),2):
        ax.append(z3.Implies(z3.And(A(a)>0,A(b)>0,A(a)<A(b)), va<vb))
    for (a,va),(b,vb),(c,vc) in itertools.permutations(by.get('log',[]),3):
        if b.get_id()<c.get_id(): ax.append(z3.Implies(z3.And(A(b)>0,A(c)>0,A(a)==A(b)*A(c)), va==vb+vc))
    for a,va in by.get('erf',[]):
        ax += [va>-1, va<1, z3.Implies(A(a)==0, va==0)]
    for (a,va),(b,vb) in itertools.combinations(by.get('erf',[]),2):
        ax += [z3.Implies(A(a)+A(b)==0, va+vb==0)]
    for a,va in by.get('erfcx',[]):
        # erfcx(x) = exp(x^2) * (1 - erf(x)): needs matching exp / erf atoms
        for b,vb in by.get('exp',[]):
            for c,vc in by.get('erf',[]):
                ax.append(z3.Implies(z3.And(A(b)==A(a)*A(a), A(c)==A(a)), va==vb*(1-vc)))
                ax.append(z3.Implies(z3.And(A(b)+A(a)*A(a)==0, A(c)==A(a)), va*vb==(1-vc)))
                ax.append(z3.Implies(z3.And(A(b)+A(a)*A(a)==0, A(c)+A(a)==0), va*vb==(1+vc)))
                ax.append(z3.Implies(z3.And(A(b)==A(a)*A(a), A(c)+A(a)==0), va==vb*(1+vc)))
    return ax
def diff(e, x):
    if z3.is_rational_value(e) or z3.is_int_value(e): return z3.RealVal(0)
    if e.eq(x): return z3.RealVal(1)
    if z3.is_const(e): return z3.RealVal(0)
    k = e.decl().kind(); ch = e.children()
    if k == z3.Z3_OP_ADD: return z3.Sum([diff(c,x) for c in ch])
    if k == z3.Z3_OP_SUB:
        r = diff(ch[0],x)
        for c in ch[1:]: r = r - diff(c,x)
        return r
    if k == z3.Z3_OP_UMINUS: return -diff(ch[0],x)
    if k == z3.Z3_OP_MUL:
        tot=[]
        for i in range(len(ch)):
            d = diff(ch[i],x)
            if z3.is_rational_value(d) and d.numerator_as_long()==0: continue
            t = d
            for j in range(len(ch)):
                if j!=i: t = t*ch[j]
            tot.append(t)
        return z3.Sum(tot) if tot else z3.RealVal(0)
    if k == z3.Z3_OP_DIV:
        a,b = ch; return (diff(a,x)*b - a*diff(b,x))/(b*b)
    if k == z3.Z3_OP_POWER:
        a,b = ch; n = b.numerator_as_long(); return n*(a**(n-1))*diff(a,x)
    if k == z3.Z3_OP_ITE: return z3.If(ch[0], diff(ch[1],x), diff(ch[2],x))
    if k == z3.Z3_OP_TO_REAL: return z3.RealVal(0)
    if k == z3.Z3_OP_UNINTERPRETED:
        n = e.decl().name(); a = ch[0]
        if n=='exp': return e*diff(a,x)
        if n=='log': return diff(a,x)/a
        if n=='sqrt': return diff(a,x)/(2*e)
        if n=='erf': return TWO_OVER_SQRTPI*F['exp'](-(a*a))*diff(a,x)
        if n=='tanh': return (1-e*e)*diff(a,x)
        if n not in DERIV and n not in F:
            DERIV[n] = (lambda n: lambda e: [z3.Function(f'{n}_d{k}', *([RS]*e.num_args()), RS)(*e.children()) for k in range(e.num_args())])(n)
        if n in DERIV:
            parts = DERIV[n](e)
            return z3.Sum([p*diff(c,x) for p,c in zip(parts,ch)])
    raise NotImplementedError(str(e.decl()))
PI = z3.Real('PI'); SQRT2 = z3.Real('SQRT2'); SQRTPI = z3.Real('SQRTPI')
TWO_OVER_SQRTPI = 2/SQRTPI
CONST_AX = [PI>z3.RealVal('3.14159'), PI<z3.RealVal('3.1416'), SQRT2>0, SQRT2*SQRT2==2, SQRTPI>0, SQRTPI*SQRTPI==PI]
def prove(ctx, neg, extra=(), timeout=60000):
    """returns 'unsat'/'sat'/'unknown' for side ∧ pc ∧ neg after abstraction"""
    allc = list(ctx.side)+list(ctx.pc)+[neg]+list(extra)
    ab, sub = abstract(allc)
    s = z3.Tactic('qfnra-nlsat').solver(); s.set('timeout', timeout)
    for c in allc: s.add(ab(c))
    for a in axioms(sub, ab): s.add(a)
    for a in CONST_AX: s.add(a)
    r = s.check()
    return str(r), len(sub), (s.model() if r==z3.sat else None)
for n in F:
    setattr(SymReal, n, (lambda nn: lambda s: SymReal(F[nn](z3.simplify(s.e))))(n))
