from inference.mcmc.base import MarkovChain
from inference.mcmc.utilities import ChainProgressPrinter

class _Counter(MarkovChain):
    def __init__(self):
        self.n = 0
        self.chain_length = 1
        self.ProgressPrinter = ChainProgressPrinter(display=False)
    def take_step(self): self.n += 1
    def get_parameter(self, *a, **k): pass
    def get_probabilities(self, *a, **k): pass
    def get_sample(self, *a, **k): pass

def advance_adds_m(m: int) -> int:
    """
    pre: 0 <= m <= 12
    post: _ == m
    """
    c = _Counter()
    MarkovChain.advance(c, m)
    return c.n
