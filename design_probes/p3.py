import sys; sys.path.insert(0,'/tmp/probe')
from symex import *
import time
from fractions import Fraction
def plain(name,*shape): return np.asarray(symarr(name,*shape)).view(np.ndarray)
def adj_inverse(K):
    n=K.shape[0]
    import itertools
    def det(M):
        m=M.shape[0]
        if m==1: return M[0,0]
        return sum(((-1)**j)*M[0,j]*det(np.delete(np.delete(M,0,0),j,1)) for j in range(m))
    D=det(K)
    W=np.zeros((n,n),dtype=object)
    for i in range(n):
        for j in range(n):
            W[j,i]=((-1)**(i+j))*det(np.delete(np.delete(K,i,0),j,1))/D if n>1 else 1/K[0,0]
    return W
def run(n, mode):
    ctx = Ctx(600000); Ctx.cur=ctx; ctx.pending=[]
    Ks = plain('K', n, n)
    K = np.zeros((n,n),dtype=object)
    for i in range(n):
        for j in range(n): K[i,j]=Ks[min(i,j),max(i,j)]
    kq = plain('kq',1,n); kqq=sym('kqq'); y=plain('y',n); m=sym('m')
    # real algorithm pieces as in regression.py
    L = stub_cholesky(K)   # forks on PD -> use branch; force True
    alpha = stub_solve_triangular(L.T, stub_solve_triangular(L, y-m, lower=True))
    mu = (kq @ alpha)[0] + m
    v = stub_solve_triangular(L, kq.T, lower=True)
    var = kqq - (v**2).sum()
    W = adj_inverse(K)
    m_or = m + (kq @ (W @ (y-m)))[0]
    v_or = kqq - (kq @ W @ kq.T)[0,0]
    print('decisions', ctx.decisions)
    s = z3.Tactic('qfnra-nlsat').solver() if mode=='nlsat' else z3.Solver()
    s.set('timeout', 600000)
    # abstract sqrt UF apps into fresh vars
    subs=[]; cons=[]
    import re
    allc = ctx.side + ctx.pc
    # collect sqrt apps
    apps={}
    def walk(e):
        if z3.is_app(e):
            if e.decl().name()=='sqrt': apps[e.get_id()]=e
            for c in e.children(): walk(c)
    seen=set()
    def walk(e):
        if e.get_id() in seen: return
        seen.add(e.get_id())
        if z3.is_app(e):
            if e.decl().kind()==z3.Z3_OP_UNINTERPRETED and e.num_args()>0: apps[e.get_id()]=e
            for c in e.children(): walk(c)
    for e in allc+[mu.e,var.e,m_or.e,v_or.e]: walk(e)
    print('UF apps', len(apps))
    sub=[(a, z3.Real(f'atom{i}')) for i,a in enumerate(apps.values())]
    # substitute innermost-first: repeat until fixpoint
    def ab(e):
        for _ in range(10):
            e2=z3.substitute(e,*sub)
            if e2.eq(e): break
            e=e2
        return e
    for c in allc: s.add(ab(c))
    for name,a,b in [('mean',mu.e,m_or.e),('var',var.e,v_or.e)]:
        t=time.time(); s.push(); s.add(ab(a)!=ab(b)); r=s.check(); s.pop()
        print(n,mode,name,r,round(time.time()-t,2))
run(int(sys.argv[1]), sys.argv[2])
