import sys, time; sys.path.insert(0,'/tmp/probe')
from ax import *
import expnorm
import inference.gp.covariance as COV
from inference.gp.covariance import SquaredExponential, RationalQuadratic, WhiteNoise, ChangePoint
def plain(name,*shape): return np.asarray(symarr(name,*shape)).view(np.ndarray)
def lift(name, npf):
    def f(v):
        if isinstance(v,SymReal): return getattr(v,name)()
        if isinstance(v,np.ndarray) and v.dtype==object: return np.frompyfunc(lambda e: getattr(e,name)() if isinstance(e,SymReal) else npf(e),1,1)(v)
        return npf(v)
    return f
COV.exp = lift('exp',np.exp); COV.log = lift('log',np.log)
COV.eye = lambda n: np.eye(n).astype(object)
def check(kern, n, d, npar_extra=None):
    ctx=Ctx(); Ctx.cur=ctx; ctx.pending=[]
    x=plain('x',n,d)
    kern.pass_spatial_data(x)
    th=plain('h',kern.n_params)
    # change-point widths must be nonzero
    K=kern.build_covariance(th)
    Kp=kern(x,x,th)
    K2,grads=kern.covariance_and_gradients(th)
    t=time.time()
    offd=[K[i,j].e!=Kp[i,j].e for i in range(n) for j in range(n) if i!=j]
    r=prove(ctx, z3.Or(*offd), timeout=60000); print(type(kern).__name__,n,d,'builder==pairwise offdiag',r[0],'atoms',r[1],round(time.time()-t,2))
    for k in range(kern.n_params):
        t=time.time()
        neg=[diff(K2[i,j].e, th[k].e)!=grads[k][i,j].e if isinstance(grads[k][i,j],SymReal) else diff(K2[i,j].e, th[k].e)!=R(grads[k][i,j]) for i in range(n) for j in range(n)]
        r=prove(ctx, z3.Or(*neg), timeout=60000); print('   grad',k,kern.hyperpar_labels[k],r[0],'atoms',r[1],round(time.time()-t,2)); sys.stdout.flush()


check(ChangePoint([SquaredExponential, SquaredExponential]), 2, 1)
check(ChangePoint([WhiteNoise, WhiteNoise, WhiteNoise]), 2, 1)
