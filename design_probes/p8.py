import sys, time; sys.path.insert(0,'/tmp/probe')
from symex import *
from inference.pdf.hdi import sample_hdi
import inference.pdf.hdi as H
def plain(name,*shape): return np.asarray(symarr(name,*shape)).view(np.ndarray)
# int() of symbolic real: fork on value
def sym_int(x):
    if not isinstance(x, SymReal): return int(x)
    c = Ctx.cur
    for v in range(0, 8):
        cond = z3.And(x.e >= v, x.e < v+1)
        if c.branch(cond): return v
    raise PathAbort('int out of range')
H.int = sym_int
H.zeros = lambda shape, **k: np.zeros(shape, dtype=object)
H.warn = lambda *a, **k: None
def fn(n):
    c=Ctx.cur
    s = plain('s', n); f = sym('f')
    s0 = s.copy()
    r = sample_hdi(s, f)
    return s, s0, f, r
for n in (3,4):
    t=time.time()
    outs,pend = explore(lambda: fn(n), max_paths=5000)
    errs=[e for _,_,e in outs if e]
    print('n',n,'paths',len(outs),'errs',len(errs),'pend',len(pend),round(time.time()-t,2))
    from collections import Counter
    print(Counter(type(e).__name__+':'+str(e)[:60].replace('\n',' ') for e in errs))
    bad=0; t=time.time()
    for ctx,res,err in outs:
        if err: continue
        s,s0,f,r = res
        lo,hi = r[0],r[1]
        if not isinstance(lo,SymReal): bad+=1; continue
        inside = sum([z3.If(z3.And(v.e>=R(lo), v.e<=R(hi)),1,0) for v in s])
        cover = z3.ToReal(inside) >= f.e*n
        # optimality: any pair of sample values containing >= as many points is not shorter
        opt=[]
        for a in s:
            for b in s:
                cnt = sum([z3.If(z3.And(v.e>=a.e, v.e<=b.e),1,0) for v in s])
                opt.append(z3.Implies(z3.And(a.e<=b.e, cnt>=inside), b.e-a.e >= R(hi)-R(lo)))
        r1 = ctx.check(z3.Not(cover)); r2 = ctx.check(z3.Not(z3.And(*opt)))
        if r1!=z3.unsat or r2!=z3.unsat:
            bad+=1
            if bad<3: print('CEX', r1, r2, ctx.solver.model() if r2==z3.sat or r1==z3.sat else '')
    print('bad',bad,'check time',round(time.time()-t,2))
