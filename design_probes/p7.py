import sys, time; sys.path.insert(0,'/tmp/probe')
from symex import *
from inference.mcmc.gibbs import GibbsChain
import inference.mcmc.gibbs as G
def plain(name,*shape): return np.asarray(symarr(name,*shape)).view(np.ndarray)
Lf = z3.Function('L', z3.RealSort(), z3.RealSort(), z3.RealSort())
class Rng:
    def __init__(s, tag): s.k=0; s.tag=tag; s.draws=[]
    def normal(s, loc=0.0, scale=1.0, size=None):
        s.k+=1; z=sym(f'{s.tag}_z{s.k}'); s.draws.append(('n',z)); return loc + scale*z
    def random(s):
        s.k+=1; u=sym(f'{s.tag}_u{s.k}'); Ctx.cur.side += [u.e>=0, u.e<1]; s.draws.append(('u',u)); return u
class Bound(BaseException): pass
G.isfinite = lambda x: True
G.float64 = object
G.exp = lambda x: x.exp() if isinstance(x,SymReal) else np.exp(x)
def fn():
    c=Ctx.cur
    calls=[]
    def post(t):
        calls.append(list(t))
        if len(calls) > 5: raise PathAbort('bound')
        return SymReal(Lf(*[R(v) for v in t]))
    start = np.array([0.0,0.0])
    ch = GibbsChain(post, start, widths=[1.0,1.0], temperature=2.0, display_progress=False)
    th = [sym('a'), sym('b')]
    for p,v in zip(ch.params, th): p.samples=[v]; p.rng=Rng('p'); p.sigma=sym('sg'+str(id(p)%7)); c.side.append(p.sigma.e>0)
    ch.probs=[post(th)*ch.inv_temp]
    ch.rng = Rng('c')
    ch.take_step()
    return ch, calls
t=time.time()
outs,pend = explore(fn, max_paths=200)
print('paths',len(outs),'pend',len(pend),round(time.time()-t,2))
ok=0
for ctx,res,err in outs:
    if err: print('ERR',type(err),str(err)[:200]); continue
    ch,calls=res
    new=[p.samples[-1] for p in ch.params]
    want = Lf(*[R(v) for v in new])*z3.RealVal('1/2')
    r = ctx.check(ch.probs[-1].e != want)
    ok += (r==z3.unsat)
print('C03 one-step invariant proven on', ok, 'paths')
