import sys; sys.path.insert(0,'/tmp/probe')
from symex import *
import time
from inference.likelihoods import GaussianLikelihood, CauchyLikelihood, LogisticLikelihood
import inference.likelihoods as lk
def plain(name,*shape): return np.asarray(symarr(name,*shape)).view(np.ndarray)

# symbolic differentiation over z3 terms
def diff(e, x):
    if z3.is_rational_value(e) or z3.is_int_value(e): return z3.RealVal(0)
    if e.eq(x): return z3.RealVal(1)
    if z3.is_const(e): return z3.RealVal(0)
    k = e.decl().kind(); ch = e.children()
    if k == z3.Z3_OP_ADD: return sum((diff(c,x) for c in ch[1:]), diff(ch[0],x))
    if k == z3.Z3_OP_SUB:
        r = diff(ch[0],x)
        for c in ch[1:]: r = r - diff(c,x)
        return r
    if k == z3.Z3_OP_UMINUS: return -diff(ch[0],x)
    if k == z3.Z3_OP_MUL:
        tot = z3.RealVal(0)
        for i in range(len(ch)):
            t = diff(ch[i],x)
            for j in range(len(ch)):
                if j!=i: t = t*ch[j]
            tot = tot + t
        return tot
    if k == z3.Z3_OP_DIV:
        a,b = ch; return (diff(a,x)*b - a*diff(b,x))/(b*b)
    if k == z3.Z3_OP_UNINTERPRETED:
        n = e.decl().name(); a = ch[0]
        if n=='exp': return e*diff(a,x)
        if n=='log': return diff(a,x)/a
        if n=='sqrt': return diff(a,x)/(2*e)
    if k == z3.Z3_OP_ITE:
        return z3.If(ch[0], diff(ch[1],x), diff(ch[2],x))
    raise NotImplementedError(e.decl())

def abstract(exprs):
    apps={}; seen=set()
    def walk(e):
        if e.get_id() in seen: return
        seen.add(e.get_id())
        if z3.is_app(e):
            for c in e.children(): walk(c)
            if e.decl().kind()==z3.Z3_OP_UNINTERPRETED and e.num_args()>0: apps[e.get_id()]=e
    for e in exprs: walk(e)
    sub=[(a, z3.Real(f'atom{i}')) for i,a in enumerate(apps.values())]
    def ab(e):
        for _ in range(10):
            e2=z3.substitute(e,*sub)
            if e2.eq(e): break
            e=e2
        return e
    return ab, sub

def logaddexp_stub(a, b):
    # log(exp(a)+exp(b)) elementwise
    f = np.frompyfunc(lambda u,v: ((u if isinstance(u,SymReal) else SymReal(R(u))).exp() + (v if isinstance(v,SymReal) else SymReal(R(v))).exp()).log(), 2, 1)
    return f(a,b)
lk.logaddexp = logaddexp_stub

def run(cls, n, p):
    ctx = Ctx(120000); Ctx.cur=ctx; ctx.pending=[]
    y, s, th = plain('y',n), plain('s',n), plain('t',p)
    for e in s: ctx.side.append(e.e>0)
    # forward model: arbitrary smooth model abstracted: F_i(theta) as UF per i, jacobian as UF dF_i/dth_j
    F = [z3.Function(f'F{i}', *([z3.RealSort()]*(p+1))) for i in range(n)]
    # simpler: polynomial model with symbolic coefficients: F_i = sum_j A_ij th_j + B_i th_0^2
    A = plain('A', n, p); Bc = plain('B', n)
    model = lambda t: A @ t + Bc * t[0]**2
    def jac(t):
        J = A.copy()
        J[:,0] = J[:,0] + 2*Bc*t[0]
        return J
    ctx.preset=[False]*4   # skip the (unc<=0).any() branch
    try:
        L = cls(y, s, model, jac)
    except Exception as e:
        print('ctor', type(e), ctx.decisions); raise
    val = L(th); g = L.gradient(th)
    ab, sub = abstract([val.e]+[gi.e for gi in g]+ctx.side)
    so = z3.Tactic('qfnra-nlsat').solver(); so.set('timeout',120000)
    for c in ctx.side+ctx.pc: so.add(ab(c))
    exps=[(a,v) for a,v in sub if a.decl().name()=='exp']
    for a,va in exps:
        so.add(z3.Implies(ab(a.arg(0))==0, va==1)); so.add(va>0)
        for b,vb in exps:
            if a.get_id()<b.get_id():
                so.add(z3.Implies(ab(a.arg(0))+ab(b.arg(0))==0, va*vb==1))
                so.add(z3.Implies(ab(a.arg(0))==ab(b.arg(0)), va==vb))
    for j in range(p):
        d = diff(val.e, th[j].e)
        t=time.time(); so.push(); so.add(ab(d) != ab(g[j].e)); r=so.check(); so.pop()
        print(cls.__name__, n, p, 'd/dth',j, r, round(time.time()-t,2), 'atoms', len(sub))
for cls in (LogisticLikelihood,):
    run(cls, 2, 2)
