import sys; sys.path.insert(0,'/tmp/probe')
from symex import *
import inference.gp.regression as reg
from inference.gp import GpRegressor, SquaredExponential, ConstantMean
reg.cholesky = stub_cholesky; reg.solve_triangular = stub_solve_triangular
import time
def plain(name,*shape): return np.asarray(symarr(name,*shape)).view(np.ndarray)
def run(n, d=1, nq=1):
    def fn():
        c = Ctx.cur
        x, y, ye, hp, q = plain('x',n,d), plain('y',n), plain('e',n), plain('h',2+d), plain('q',nq,d)
        for e in ye: c.side.append(e.e > 0)
        gp = GpRegressor(x, y, y_err=ye, hyperpars=hp, kernel=SquaredExponential(hyperpar_bounds=[(0,1)]*(1+d)), mean=ConstantMean(hyperpar_bounds=[(0,1)]))
        mu, sig = gp(q)
        return gp, x,y,ye,hp,q,mu,sig
    t=time.time()
    outs, pend = explore(fn, timeout_ms=120000)
    print('n',n,'paths', len(outs), 'pending', len(pend), round(time.time()-t,2))
    for ctx,res,err in outs:
        if err: print('ERR', type(err), str(err)[:200].replace('\n',' '), ctx.decisions); continue
        gp,x,y,ye,hp,q,mu,sig = res
        Ctx.cur = ctx
        # oracle: closed form with explicit inverse W: W*(Kxx+S) = I (fresh)
        K = gp.cov(x, x, hp[1:]) + np.diag(ye**2)   # generic pairwise evaluation (no jitter)
        # note build_covariance adds 1e-12 jitter * a^2 on the diagonal: include documented jitter
        a2 = hp[1].exp()**2
        K = K + np.eye(n)*(a2*1e-12)
        W = plain('W', n, n)
        KW = K @ W
        for i in range(n):
            for j in range(n):
                ctx.side.append(KW[i,j].e == (1 if i==j else 0))
        kq = gp.cov(q[:1], x, hp[1:])
        m_or = hp[0] + (kq @ (W @ (y - hp[0])))[0]
        v_or = gp.cov(q[:1],q[:1],hp[1:])[0,0] - (kq @ W @ kq.T)[0,0]
        t=time.time()
        r1 = ctx.check(mu[0].e != m_or.e); t1=time.time()-t
        t=time.time()
        r2 = ctx.check(sig[0].e*sig[0].e != z3.If(v_or.e>=0, v_or.e, -v_or.e)); t2=time.time()-t
        print(ctx.decisions, 'mean', r1, round(t1,2), 'var', r2, round(t2,2))
run(int(sys.argv[1]))
