import sys, time; sys.path.insert(0,'/tmp/probe')
from ax import *
import expnorm
import inference.gp.inversion as INV
from inference.gp.covariance import CovarianceFunction
from inference.gp.mean import MeanFunction
def plain(name,*shape): return np.asarray(symarr(name,*shape)).view(np.ndarray)
def gauss_solve(a, b, **kw):
    a=np.array(a,dtype=object); b=np.array(b,dtype=object); n=a.shape[0]
    B=b.reshape(n,-1).copy(); A=a.copy()
    for i in range(n):
        Ctx.cur.side.append(R(A[i,i])!=0)     # contract: nonsingular, no pivoting needed (assumption)
        for k in range(i+1,n):
            f=A[k,i]/A[i,i]; A[k,:]=A[k,:]-f*A[i,:]; B[k,:]=B[k,:]-f*B[i,:]
    X=np.zeros_like(B)
    for i in range(n-1,-1,-1):
        X[i,:]=(B[i,:]-sum(A[i,k]*X[k,:] for k in range(i+1,n)))/A[i,i]
    return X.reshape(b.shape)
INV.solve = gauss_solve
class AbsK(CovarianceFunction):
    def __init__(s, L): s.L=L; s.bounds=[(0,1)]; s.n_params=1; s.hyperpar_labels=['k']
    def pass_spatial_data(s,x): pass
    def estimate_hyperpar_bounds(s,y): pass
    def __call__(s,u,v,t): raise NotImplementedError
    def build_covariance(s,t): return s.L@s.L.T
    def covariance_and_gradients(s,t): raise NotImplementedError
class AbsM(MeanFunction):
    def __init__(s,m): s.m=m; s.bounds=[(0,1)]; s.n_params=1; s.hyperpar_labels=['m']
    def pass_spatial_data(s,x): pass
    def estimate_hyperpar_bounds(s,y): pass
    def __call__(s,q,t): raise NotImplementedError
    def build_mean(s,t): return s.m
    def mean_and_gradients(s,t): raise NotImplementedError
def det(M):
    m=M.shape[0]
    if m==1: return M[0,0]
    return sum(((-1)**j)*M[0,j]*det(np.delete(np.delete(M,0,0),j,1)) for j in range(m))
def inv_small(M):
    m=M.shape[0]
    if m==1: return np.array([[1/M[0,0]]],dtype=object)
    D=det(M); W=np.zeros((m,m),dtype=object)
    for i in range(m):
        for j in range(m): W[j,i]=((-1)**(i+j))*det(np.delete(np.delete(M,i,0),j,1))/D
    return W
def run(nd, npar):
    ctx=Ctx(); Ctx.cur=ctx; ctx.pending=[]
    Ls=plain('L',npar,npar); L=np.zeros((npar,npar),dtype=object)
    for i in range(npar):
        for j in range(i+1): L[i,j]=Ls[i,j]
        ctx.side.append(Ls[i,i].e>0)
    A=plain('A',nd,npar); y=plain('y',nd); e=plain('e',nd); m=plain('m',npar)
    for v in e: ctx.side.append(v.e>0)
    inv = INV.GpLinearInverter(y, e, A, np.zeros((npar,1)), AbsK(L), AbsM(m))
    th=np.zeros(2)
    mu, Sig = inv.calculate_posterior(th)
    mu2 = inv.calculate_posterior_mean(th)
    K=L@L.T; S=np.diag(e**2)
    W = inv_small(A@K@A.T+S)
    Sig_ref = K - K@A.T@W@A@K
    mu_ref = m + K@A.T@W@(y-A@m)
    if nd==2 and npar==2:
        for i in range(2):
            for j in range(2):
                t=time.time(); r=prove(ctx, Sig[i,j].e!=Sig_ref[i,j].e, timeout=100000); print('entry',i,j,r[0],round(time.time()-t,2)); sys.stdout.flush()
        return
    for name,neg in [('Sigma==Woodbury', z3.Or(*[a.e!=b.e for a,b in zip(Sig.ravel(),Sig_ref.ravel())])),
                     ('mu==ref', z3.Or(*[a.e!=b.e for a,b in zip(mu,mu_ref)])),
                     ('mean-only==full', z3.Or(*[a.e!=b.e for a,b in zip(mu,mu2)])),
                     ('Sigma symmetric', z3.Or(*[Sig[i,j].e!=Sig[j,i].e for i in range(npar) for j in range(i)]) if npar>1 else z3.BoolVal(False)),
                     ('Sigma diag>=0', z3.Or(*[Sig[i,i].e<0 for i in range(npar)])),
                     ('K-Sigma diag>=0', z3.Or(*[(K-Sig)[i,i].e<0 for i in range(npar)])),
                     ]:
        t=time.time(); r=prove(ctx, neg, timeout=120000); print(nd,npar,name,r[0],round(time.time()-t,2)); sys.stdout.flush()
run(2,2)
