import sys, time; sys.path.insert(0,'/tmp/probe')
from ax import *
def plain(name,*shape): return np.asarray(symarr(name,*shape)).view(np.ndarray)
def det(M):
    m=M.shape[0]
    if m==1: return M[0,0]
    return sum(((-1)**j)*M[0,j]*det(np.delete(np.delete(M,0,0),j,1)) for j in range(m))
def inv_small(M):
    m=M.shape[0]
    if m==1: return np.array([[1/M[0,0]]],dtype=object)
    D=det(M); W=np.zeros((m,m),dtype=object)
    for i in range(m):
        for j in range(m): W[j,i]=((-1)**(i+j))*det(np.delete(np.delete(M,i,0),j,1))/D
    return W
def run(n):
    ctx=Ctx(); Ctx.cur=ctx; ctx.pending=[]
    Ls=plain('L',n,n); L=np.zeros((n,n),dtype=object)
    for i in range(n):
        for j in range(i+1): L[i,j]=Ls[i,j]
        ctx.side.append(Ls[i,i].e>0)
    K=L@L.T
    Ws=plain('W',n,n); W=np.zeros((n,n),dtype=object)
    for i in range(n):
        for j in range(n): W[i,j]=Ws[min(i,j),max(i,j)]
    X=plain('X',n,n)
    hyp=(np.eye(n)+K@W)@X-K
    for v in hyp.ravel(): ctx.side.append(v.e==0)
    # conclusion: (K^-1 + W) X = I, with K^-1 = L^-T L^-1 via substitution
    iL=stub_solve_triangular(L, np.eye(n), lower=True); iK=iL.T@iL
    con=(iK+W)@X-np.eye(n)
    t=time.time(); r=prove(ctx, z3.Or(*[v.e!=0 for v in con.ravel()]), timeout=200000); print(n,'lemma (I+KW)X=K => (K^-1+W)X=I',r[0],round(time.time()-t,2))
    con2=[X[i,j].e!=X[j,i].e for i in range(n) for j in range(i)]
    t=time.time(); r=prove(ctx, z3.Or(*con2), timeout=200000); print(n,'X symmetric',r[0],round(time.time()-t,2))
run(2); run(3)
