import sys, time; sys.path.insert(0,'/tmp/probe')
from ax import *
import expnorm
def plain(name,*shape): return np.asarray(symarr(name,*shape)).view(np.ndarray)
def det(M):
    m=M.shape[0]
    if m==1: return M[0,0]
    return sum(((-1)**j)*M[0,j]*det(np.delete(np.delete(M,0,0),j,1)) for j in range(m))
def solve_small(M, b):   # Cramer / adjugate, m<=2
    m=M.shape[0]
    if m==1: return b/M[0,0]
    D=det(M); out=[]
    for i in range(m):
        Mi=M.copy(); Mi[:,i]=b; out.append(det(Mi)/D)
    return np.array(out,dtype=object)
def run(n):
    ctx=Ctx(); Ctx.cur=ctx; ctx.pending=[]
    Ls=plain('L',n,n); L=np.zeros((n,n),dtype=object)
    for i in range(n):
        for j in range(i+1): L[i,j]=Ls[i,j]
        ctx.side.append(Ls[i,i].e>0)
    K=L@L.T; y=plain('y',n); mu=plain('m',n)
    # code (regression.py marginal_likelihood / loo) re-stated with stubs == real lines run via stubs in implementation
    v=stub_solve_triangular(L, y-mu, lower=True)
    lml = -0.5*(v@v) - sum(np.log(np.diagonal(L)))
    beta=stub_solve_triangular(L.T, v)  # certified below
    ref = -0.5*((y-mu)@beta) - 0.5*det(K).log()
    t=time.time(); r=prove(ctx, z3.Or(*[a.e!=0 for a in (K@beta-(y-mu))]), timeout=120000); print(n,'beta cert',r[0],round(time.time()-t,2))
    t=time.time(); r=prove(ctx, lml.e!=ref.e, timeout=120000); print(n,'LML',r[0],'atoms',r[1],round(time.time()-t,2))
    # LOO
    iK=stub_solve_triangular(L, np.eye(n), lower=True); iK=iK.T@iK
    alpha=iK@(y-mu); var=1.0/np.diag(iK); loo_mu = y - alpha*var
    for i in range(n):
        idx=[k for k in range(n) if k!=i]
        Kr=K[np.ix_(idx,idx)]; kr=K[i,idx]
        w=solve_small(Kr, (y-mu)[idx])
        mu_ref = mu[i] + kr@w
        w2=solve_small(Kr, kr)
        var_ref = K[i,i]-kr@w2
        t=time.time(); r1=prove(ctx, loo_mu[i].e!=mu_ref.e, timeout=120000); r2=prove(ctx, var[i].e!=var_ref.e, timeout=120000)
        print(n,'LOO',i,r1[0],r2[0],round(time.time()-t,2)); sys.stdout.flush()
run(2); run(3)
