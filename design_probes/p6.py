import sys, time; sys.path.insert(0,'/tmp/probe')
from symex import *
exec(open('/tmp/probe/abs_only.py').read())
from inference.mcmc.hmc import HamiltonianChain
def plain(name,*shape): return np.asarray(symarr(name,*shape)).view(np.ndarray)
def run(d, nsteps, massmode):
    ctx = Ctx(300000); Ctx.cur=ctx; ctx.pending=[]
    G = [z3.Function(f'g{i}', *([z3.RealSort()]*(d+1))) for i in range(d)]
    def grad(t): return np.array([SymReal(G[i](*[tt.e for tt in t])) for i in range(d)], dtype=object)
    post = lambda t: SymReal(z3.RealVal(0))
    im = 1.0 if massmode=='scalar' else np.array(([2.0,0.5,1.5])[:d])
    ch = HamiltonianChain(post, np.zeros(d), grad=grad, inverse_mass=im, display_progress=False)
    ch.ES.epsilon = sym('eps'); ch.inv_temp = sym('beta')
    if massmode=='symvec':
        ch.mass.inv_mass = plain('im', d)
    t0, r0 = plain('t',d), plain('r',d)
    t1, r1 = ch.run_leapfrog(t0.copy(), r0.copy(), nsteps)
    t2, r2 = ch.run_leapfrog(t1.copy(), -r1, nsteps)
    outs = [a.e != b.e for a,b in zip(t2,t0)] + [a.e != -b.e for a,b in zip(r2,r0)]
    ab, sub = abstract([o for o in outs])
    so = z3.Tactic('qfnra-nlsat').solver(); so.set('timeout',300000)
    # congruence axioms
    for i,(a,va) in enumerate(sub):
        for b,vb in sub[i+1:]:
            if a.decl().eq(b.decl()):
                so.add(z3.Implies(z3.And(*[ab(x)==ab(y) for x,y in zip(a.children(), b.children())]), va==vb))
    so.add(z3.Or(*[ab(o) for o in outs]))
    t=time.time(); r=so.check(); print(d,nsteps,massmode,'reversible:',r,round(time.time()-t,2),'atoms',len(sub)); sys.stdout.flush()
for d,n,m in [(1,1,'scalar'),(1,2,'scalar'),(2,2,'symvec'),(2,3,'symvec'),(3,3,'symvec')]:
    run(d,n,m)
