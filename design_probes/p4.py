import sys; sys.path.insert(0,'/tmp/probe')
from symex import *
import time
def plain(name,*shape): return np.asarray(symarr(name,*shape)).view(np.ndarray)
def run(n, nq):
    ctx = Ctx(600000); Ctx.cur=ctx; ctx.pending=[]
    Ls = plain('L', n, n); L=np.zeros((n,n),dtype=object)
    for i in range(n):
        for j in range(i+1): L[i,j]=Ls[i,j]
        ctx.side.append(Ls[i,i].e>0)
    K = L @ L.T
    kq = plain('kq',nq,n); kqq=plain('kqq',nq,nq); y=plain('y',n); m=sym('m')
    alpha = stub_solve_triangular(L.T, stub_solve_triangular(L, y-m, lower=True))
    s = z3.Tactic('qfnra-nlsat').solver(); s.set('timeout', 300000)
    for c in ctx.side: s.add(c)
    def chk(name, neq):
        t=time.time(); s.push(); s.add(neq); r=s.check(); s.pop(); print(n,nq,name,r,round(time.time()-t,2)); sys.stdout.flush()
    res = K @ alpha - (y-m)
    chk('alpha residual', z3.Or(*[r.e != 0 for r in res]))
    Q = stub_solve_triangular(L, kq.T, lower=True)
    sigma = kqq - Q.T @ Q
    beta = stub_solve_triangular(L.T, stub_solve_triangular(L, kq.T, lower=True))  # oracle solve
    res2 = (K @ beta - kq.T).ravel()
    chk('beta residual', z3.Or(*[r.e != 0 for r in res2]))
    sig_or = kqq - kq @ beta
    chk('sigma', z3.Or(*[a.e != b.e for a,b in zip(sigma.ravel(), sig_or.ravel())]))
    alpha_bad = stub_solve_triangular(L.T, stub_solve_triangular(L.T, y-m, lower=False))
    res = K @ alpha_bad - (y-m)
    chk('MUT alpha residual', z3.Or(*[r.e != 0 for r in res]))
run(int(sys.argv[1]), int(sys.argv[2]))
