import sys; sys.path.insert(0,'/tmp/probe')
exec(open('p2.py').read().split("run(int(sys.argv[1]))")[0])
import traceback
def fn():
    c = Ctx.cur
    n,d,nq=2,1,1
    x, y, ye, hp, q = plain('x',n,d), plain('y',n), plain('e',n), plain('h',2+d), plain('q',nq,d)
    gp = GpRegressor(x, y, y_err=ye, hyperpars=hp, kernel=SquaredExponential(hyperpar_bounds=[(0,1)]*2), mean=ConstantMean(hyperpar_bounds=[(0,1)]))
    return gp(q)
Ctx.cur = Ctx(); Ctx.cur.pending=[]
try: fn()
except Exception: traceback.print_exc()
print(Ctx.cur.decisions)
