#!/bin/sh
# builds /verif/.venv: an overlay on /repo's own environment (/venv) plus z3-solver, cvc5 and
# crosshair-tool from the offline wheelhouse.  No network access is needed.
set -e
cd "$(dirname "$0")"
if [ -x .venv/bin/python ] && .venv/bin/python -c "import z3, numpy, scipy, crosshair" 2>/dev/null; then
  echo "setup: .venv already usable"; exit 0
fi
rm -rf .venv
/venv/bin/python -m venv .venv
SP=$(.venv/bin/python -c "import sysconfig; print(sysconfig.get_paths()['purelib'])")
echo "import site; site.addsitedir('/venv/lib/python3.12/site-packages')" > "$SP/_base.pth"
PIP_NO_INDEX=1 .venv/bin/python -m pip install --quiet --no-index --find-links /opt/veriftools/wheels z3-solver cvc5 crosshair-tool
.venv/bin/python -c "import z3, numpy, scipy, crosshair; print('setup: ok, z3', z3.get_version_string())"
