"""C06 — priors are normalised, sample from themselves, and compose by index"""
import itertools

import numpy as np
import z3

from symnp import funcs, stubs
from symnp.core import ozeros, R, SymBool
from symnp.harness import unit

EXPLANATION = (
    "GaussianPrior / ExponentialPrior / UniformPrior / JointPrior (constructors incl. validation and the same-class "
    "merging path, __call__, gradient, sample, bounds, cost, cost_gradient) and Posterior (call, gradient, cost, "
    "cost_gradient, generate_initial_guesses) are executed with symbolic hyper-parameters, symbolic theta inside and "
    "outside the support and a forked index layout (ordered partition of the variables among <=3 components, any "
    "component order, repeated classes). Asserted: value == textbook log-density on the support and the documented "
    "-1e100 outside; gradient == symbolic derivative on the interior; bounds == support routed to the right index; "
    "sample() == location-scale image of the generator's base draws and inside the support; joint value/gradient/"
    "bounds/sample entry i come from the component owning index i; posterior == likelihood + prior (and negatives); "
    "initial guesses are the n cheapest prior draws in non-decreasing cost."
)
BOUNDS = {"quick": "<=3 variables, <=3 components, 40 layouts (incl. all merging layouts); N<=3 prior draws",
          "thorough": "all layouts of 3 variables and 120 layouts of 4 variables over <=3 components; N<=4 prior draws"}
ASSUMPTIONS = [
    "floats as reals; 'normalised' = textbook closed form of the named density",
    "distribution of the base draws (standard normal, unit exponential, uniform[0,1)) is numpy's contract",
    "joint value identity asserted on the joint support (out-of-support constants of merged components are not summed per variable)",
]


def _priors(h):
    import inference.priors as pr
    h.patch(pr, isfinite=funcs.isfinite, zeros=ozeros)
    rng = stubs.SymRng(h, "prng")
    h.patch(pr, both=True, rng=rng)
    return pr, rng


def _hyper(h, kind, k, tag):
    if kind == "G":
        return dict(mean=h.real(f"mu{tag}", k), sigma=h.real(f"sg{tag}", k, pos=True))
    if kind == "E":
        return dict(beta=h.real(f"beta{tag}", k, pos=True))
    lo = h.real(f"lo{tag}", k)
    return dict(lower=lo, upper=lo + h.real(f"wd{tag}", k, pos=True))


def _make(pr, kind, hp, idx):
    C = {"G": pr.GaussianPrior, "E": pr.ExponentialPrior, "U": pr.UniformPrior}[kind]
    return C(variable_indices=list(idx), **hp)


def _logpdf(h, kind, hp, j, x):
    """textbook log-density of variable j of a component at x (inside the support)"""
    if kind == "G":
        z = (x - hp["mean"][j]) / hp["sigma"][j]
        return -0.5 * z * z - h.log(hp["sigma"][j]) - 0.5 * h.const("log2pi")
    if kind == "E":
        return -h.log(hp["beta"][j]) - x / hp["beta"][j]
    return -h.log(hp["upper"][j] - hp["lower"][j])


def _in_support(h, kind, hp, j, x, strict=False):
    if kind == "G":
        return True
    if kind == "E":
        return (x > 0) if strict else (x >= 0)
    return ((x > hp["lower"][j]) & (x < hp["upper"][j])) if strict else ((x >= hp["lower"][j]) & (x <= hp["upper"][j]))


def _and(h, conds):
    conds = [c for c in conds if c is not True]
    if not conds:
        return True
    out = conds[0]
    for c in conds[1:]:
        out = out & c
    return out


def _support_bounds(kind, hp, j):
    if kind == "G":
        return (None, None)
    if kind == "E":
        return (0.0, None)
    return (hp["lower"][j], hp["upper"][j])


def _check_bounds(h, name, got, want):
    h.same(f"{name}: None pattern", [(a is None, b is None) for a, b in got], [(a is None, b is None) for a, b in want])
    g = [v for pair in got for v in pair if v is not None]
    w = [v for pair, gp in zip(want, got) for v, gv in zip(pair, gp) if v is not None and gv is not None]
    if g and len(g) == len(w):
        h.eq(f"{name}: values", np.array(g, dtype=object if h.sym else float), np.array(w, dtype=object if h.sym else float))


# ------------------------------------------------------------------------------ single priors
IDX = [(0,), (2,), (0, 1), (2, 0), (1, 2, 0)]


@unit("C06", quick=[dict(kind=k, idx=i) for k in "GEU" for i in [(1,), (2, 0)]],
      thorough=[dict(kind=k, idx=i) for k in "GEU" for i in IDX])
def single_prior(h, kind, idx):
    pr, rng = _priors(h)
    N = 3
    hp = _hyper(h, kind, len(idx), "")
    p = _make(pr, kind, hp, idx)
    h.covers(type(p).__init__, type(p).__call__, type(p).gradient, type(p).sample, pr.validate_prior_parameters,
             pr.BasePrior.validate_variable_indices, pr.BasePrior.cost, pr.BasePrior.cost_gradient)
    th = h.real("th", N)
    inside = _and(h, [_in_support(h, kind, hp, j, th[v]) for j, v in enumerate(idx)])
    interior = _and(h, [_in_support(h, kind, hp, j, th[v], strict=True) for j, v in enumerate(idx)])
    val = p(th)
    ref = sum(_logpdf(h, kind, hp, j, th[v]) for j, v in enumerate(idx))
    if inside is True:
        h.eq("value == log-density", val, ref)
    else:
        h.eq("value == log-density on the support, -1e100 outside", val, h.ite(inside, ref, -1e100))
    h.eq("cost == -value", p.cost(th), -val)
    g = p.gradient(th)
    h.same("gradient length", len(g), len(idx))
    if interior is not True:
        h.assume(interior, "theta in the interior of the support (gradient)")
    sub = np.array([th[v] for v in idx], dtype=object if h.sym else float)

    def f(s):
        t = th.copy()
        for j, v in enumerate(idx):
            t[v] = s[j]
        return p(t)
    h.is_gradient("gradient == d value / d theta[variables]", f, sub, g)
    h.eq("cost_gradient == -gradient", p.cost_gradient(th), -np.asarray(g))
    _check_bounds(h, "bounds == support", p.bounds, [_support_bounds(kind, hp, j) for j in range(len(idx))])


@unit("C06", quick=[dict(kind=k, n=2) for k in "GEU"], thorough=[dict(kind=k, n=3) for k in "GEU"])
def single_prior_sample(h, kind, n):
    pr, rng = _priors(h)
    hp = _hyper(h, kind, n, "")
    p = _make(pr, kind, hp, range(n))
    x = p.sample()
    draws = [v for k, v in rng.log]
    h.same("one base draw per variable", len(draws), n)
    base = {"G": "z", "E": "e", "U": "u"}[kind]
    h.same("base distribution", [k for k, v in rng.log], [base] * n)
    for j in range(n):
        want = {"G": lambda: hp["mean"][j] + hp["sigma"][j] * draws[j], "E": lambda: hp["beta"][j] * draws[j],
                "U": lambda: hp["lower"][j] + (hp["upper"][j] - hp["lower"][j]) * draws[j]}[kind]()
        h.eq(f"sample[{j}] is the location-scale image of draw {j}", x[j], want)
        h.true(f"sample[{j}] in support", _in_support(h, kind, hp, j, x[j]))


# ------------------------------------------------------------------------------ joint prior
def layouts(N, max_comp=3):
    """all (class, index-tuple) component lists: ordered partitions of range(N) with ordered blocks"""
    out = []
    for perm in itertools.permutations(range(N)):
        for ncuts in range(0, min(max_comp, N)):
            for cuts in itertools.combinations(range(1, N), ncuts):
                edges = (0,) + cuts + (N,)
                blocks = [perm[a:b] for a, b in zip(edges[:-1], edges[1:])]
                for kinds in itertools.product("GEU", repeat=len(blocks)):
                    out.append(list(zip(kinds, blocks)))
    return out


def _pick(all_l, count, seed=0):
    """deterministic spread + every layout with a repeated class (merge path) among the first ones"""
    merging = [l for l in all_l if len({k for k, _ in l}) < len(l)]
    rest = [l for l in all_l if l not in merging]
    step_m = max(1, len(merging) // (count // 2))
    step_r = max(1, len(rest) // (count - count // 2))
    sel = merging[seed % step_m::step_m][:count // 2] + rest[seed % step_r::step_r][:count - count // 2]
    return sel


L3 = layouts(3)
L4 = layouts(4)
QUICK_L = _pick(L3, 40)
THOR_L = {3: L3, 4: _pick(L4, 120)}


def _joint(h, N, lay):
    pr, rng = _priors(h)
    comps, owner = [], {}
    for c, (kind, idx) in enumerate(lay):
        hp = _hyper(h, kind, len(idx), f"{c}_")
        comps.append(_make(pr, kind, hp, idx))
        for j, v in enumerate(idx):
            owner[v] = (kind, hp, j)
    order = h.perm("component_order", len(comps)) if len(comps) > 1 else [0]
    J = pr.JointPrior([comps[i] for i in order], n_variables=N)
    h.covers(pr.JointPrior.__init__, pr.JointPrior.__call__, pr.JointPrior.gradient, pr.JointPrior.sample,
             pr.GaussianPrior.combine, pr.ExponentialPrior.combine, pr.UniformPrior.combine)
    return pr, rng, J, owner


@unit("C06", quick=[dict(N=3, part=k, of=4) for k in range(4)],
      thorough=[dict(N=3, part=k, of=16, full=True) for k in range(16)] + [dict(N=4, part=k, of=8, full=True) for k in range(8)],
      max_paths=20000, cost=6)
def joint_prior_routes_by_index(h, N, part, of, full=False):
    pool = (THOR_L[N] if full else QUICK_L)[part::of]
    lay = pool[h.choice_int("layout", 0, len(pool) - 1)]
    pr, rng, J, owner = _joint(h, N, lay)
    th = h.real("th", N)
    interior = _and(h, [_in_support(h, *owner[v], th[v], strict=True) for v in range(N)])
    if interior is not True:
        h.assume(interior, "theta in the interior of the joint support")
    val = J(th)
    h.eq("joint value == sum of the variables' log-densities", val, sum(_logpdf(h, *owner[v], th[v]) for v in range(N)))
    g = J.gradient(th)
    h.same("gradient length", len(g), N)
    h.is_gradient("joint gradient == d value / d theta", lambda t: J(t), th, g)
    _check_bounds(h, "joint bounds", J.bounds, [_support_bounds(*owner[v]) for v in range(N)])
    h.eq("cost == -value", J.cost(th), -val)


@unit("C06", quick=[dict(N=3, part=k, of=4) for k in range(4)],
      thorough=[dict(N=3, part=k, of=8, full=True) for k in range(8)] + [dict(N=4, part=k, of=8, full=True) for k in range(8)],
      max_paths=20000, cost=4)
def joint_prior_sample_routes_by_index(h, N, part, of, full=False):
    pool = (THOR_L[N] if full else QUICK_L)[part::of]
    lay = pool[h.choice_int("layout", 0, len(pool) - 1)]
    pr, rng, J, owner = _joint(h, N, lay)
    x = J.sample()
    h.same("sample length", len(x), N)
    h.same("one base draw per variable", len(rng.log), N)
    used = []
    for v in range(N):
        kind, hp, j = owner[v]
        base = {"G": "z", "E": "e", "U": "u"}[kind]
        cands = []
        for kdraw, (bk, d) in enumerate(rng.log):
            if bk != base:
                continue
            want = {"G": lambda: hp["mean"][j] + hp["sigma"][j] * d, "E": lambda: hp["beta"][j] * d,
                    "U": lambda: hp["lower"][j] + (hp["upper"][j] - hp["lower"][j]) * d}[kind]()
            cands.append((kdraw, want))
        # which draw does coordinate v use? (structural match in symbolic mode, numeric on replay)
        hit = None
        for kdraw, want in cands:
            same = z3.is_true(z3.simplify(R(x[v]) == R(want))) if h.sym else abs(float(x[v]) - float(want)) <= 1e-9 * (1 + abs(float(want)))
            if same and kdraw not in used:
                hit = kdraw
                break
        h.same(f"sample[{v}] is the location-scale image of one unused base draw of its own component", hit is not None, True)
        if hit is not None:
            used.append(hit)
        h.true(f"sample[{v}] in support", _in_support(h, kind, hp, j, x[v]))


# ------------------------------------------------------------------------------ posterior
@unit("C06", quick=[dict(N=2)], thorough=[dict(N=3)])
def posterior_is_likelihood_plus_prior(h, N):
    import inference.posterior as po
    h.covers(po.Posterior.__call__, po.Posterior.gradient, po.Posterior.cost, po.Posterior.cost_gradient)
    lik = h.ufunc("lik", N)
    pri = h.ufunc("pri", N)
    dl = [h.ufunc(f"lik_d{i}", N) for i in range(N)]
    dp = [h.ufunc(f"pri_d{i}", N) for i in range(N)]

    class Lk:
        def __call__(self, t):
            return lik(t)

        def gradient(self, t):
            return np.array([d(t) for d in dl], dtype=object if h.sym else float)

    class Pr:
        def __call__(self, t):
            return pri(t)

        def gradient(self, t):
            return np.array([d(t) for d in dp], dtype=object if h.sym else float)
    P = po.Posterior(Lk(), Pr())
    th = h.real("th", N)
    h.eq("call == likelihood + prior", P(th), lik(th) + pri(th))
    h.eq("cost == -(likelihood + prior)", P.cost(th), -(lik(th) + pri(th)))
    h.eq("gradient == sum of gradients", P.gradient(th), Lk().gradient(th) + Pr().gradient(th))
    h.eq("cost_gradient == -gradient", P.cost_gradient(th), -(Lk().gradient(th) + Pr().gradient(th)))


@unit("C06", quick=[dict(n=1, N=2), dict(n=2, N=3)], thorough=[dict(n=1, N=4), dict(n=3, N=4), dict(n=3, N=3)], max_paths=5000)
def initial_guesses_are_cheapest_draws(h, n, N):
    import inference.posterior as po
    h.covers(po.Posterior.generate_initial_guesses)
    draws = [h.real(f"draw{k}", 2) for k in range(N)]
    lik = h.ufunc("lik", 2)
    pri = h.ufunc("pri", 2)
    it = iter(draws)

    class Pr:
        def __call__(self, t):
            return pri(t)

        def sample(self):
            return next(it)
    P = po.Posterior(lambda t: lik(t), Pr())
    out = P.generate_initial_guesses(n_guesses=n, prior_samples=N)
    h.same("number of guesses", len(out), n)
    cost = lambda t: -(lik(t) + pri(t))  # noqa: E731
    which = []
    for g in out:
        ks = [k for k, d in enumerate(draws) if d is g]
        h.same("each guess is one of the prior draws", len(ks), 1)
        which.append(ks[0] if ks else -1)
    h.same("guesses are distinct draws", len(set(which)), n)
    for a, b in zip(out[:-1], out[1:]):
        h.le("non-decreasing cost", cost(a), cost(b))
    for k, d in enumerate(draws):
        if k not in which:
            h.ge("every discarded draw costs at least as much as the last guess", cost(d), cost(out[-1]))


@unit("C06", quick=[dict(kind=k) for k in "GEU"] + [dict(kind="J")])
def posterior_with_real_priors_is_stateless(h, kind):
    """Posterior built on the real prior classes: repeated gradient / cost_gradient calls return the same sum
    and leave the prior's own gradient untouched (no state shared between calls)"""
    import inference.posterior as po
    pr, rng = _priors(h)
    N = 2
    dt = object if h.sym else float
    if kind == "J":
        comps = [_make(pr, "U", _hyper(h, "U", 1, "a"), [1]), _make(pr, "G", _hyper(h, "G", 1, "b"), [0])]
        prior = pr.JointPrior(comps, n_variables=N)
        hp_support = None
    else:
        hp = _hyper(h, kind, N, "")
        prior = _make(pr, kind, hp, range(N))
    lik = h.ufunc("lik", N)
    dl = [h.ufunc(f"lik_d{i}", N) for i in range(N)]

    class Lk:
        def __call__(self, t):
            return lik(t)

        def gradient(self, t):
            return np.array([d(t) for d in dl], dtype=dt)
    P = po.Posterior(Lk(), prior)
    th = h.real("th", N)
    th2 = h.real("th2", N)
    if kind in "EU":
        for v in range(N):
            h.assume(_in_support(h, kind, hp, v, th[v], strict=True) & _in_support(h, kind, hp, v, th2[v], strict=True), "theta inside the support")
    pg0 = np.array(prior.gradient(th), dtype=dt).copy()
    want = np.array(Lk().gradient(th), dtype=dt) + pg0
    g1 = np.array(P.gradient(th), dtype=dt).copy()
    P.gradient(th2)
    g2 = np.array(P.gradient(th), dtype=dt).copy()
    c1 = np.array(P.cost_gradient(th), dtype=dt).copy()
    h.eq("gradient == likelihood gradient + prior gradient", g1, want)
    h.eq("a repeated gradient call returns the same sum", g2, want)
    h.eq("cost_gradient == -(likelihood gradient + prior gradient)", c1, -want)
    h.eq("the prior's own gradient is unchanged by posterior calls", np.array(prior.gradient(th), dtype=dt), pg0)
    h.eq("call == likelihood + prior", P(th), lik(th) + prior(th))
