"""C02 — GP regression returns the exact Gaussian-process posterior"""
import numpy as np
import z3

from symnp import stubs
from symnp.core import ozeros
from symnp.harness import unit
from harness import gp_common as gc

EXPLANATION = (
    "GpRegressor (__init__, check_error_data, set_hyperparameters, process_points, __call__, build_posterior) is "
    "executed with (a) an abstract covariance/mean function whose values are uninterpreted functions of the point "
    "coordinates and whose data covariance plus noise is parametrised as L.L^T (every SPD matrix has exactly one such "
    "factor; cholesky returns it after the solver certifies K_xx+S == L.L^T, solve_triangular is exact substitution) "
    "and (b) the real kernels (SE, RQ, SE+WhiteNoise, SE+HeteroscedasticNoise) and mean functions with an "
    "explicit symbolic Cholesky for 2 training points. Asserted: mean(q) == m(q) + K_qx (K_xx+S)^-1 (y-m(x)); "
    "sigma^2 == |K_qq - K_qx (K_xx+S)^-1 K_xq| with the solves certified by residual identities; build_posterior mean / "
    "covariance equal the same closed form and agree with the point-wise call; mean_only agrees; 0 <= sigma^2 <= K_qq "
    "when the joint prior covariance of (x,q) is PSD (parametrised as a joint Cholesky factor); permuting the training "
    "points leaves the outputs unchanged; y_err=e and y_cov=diag(e^2) agree; list inputs and 1-D/2-D query shapes give "
    "the same values."
    ' Both kernel entry points (build_covariance, __call__) of every shipped kernel must be the same covariance function. Call-sequence unit: predictions after score evaluations at other hyper-parameters and after set_hyperparameters equal those of a freshly built regressor.'
)
BOUNDS = {"quick": "n<=2 training points (abstract kernel n<=3), <=2 query points, d<=2",
          "thorough": "abstract kernel n<=3 with 2 query points, d<=2; real kernels n=2 (the change-point kernel through the regressor is undecided by nlsat within 120 s even for one training point: it is covered by the entry-point consistency unit and by C10 instead); training-order invariance n=2 only (explicit Cholesky for n=3 is undecided by nlsat within 120 s)"}
ASSUMPTIONS = [
    "floats as reals; LAPACK cholesky / solve_triangular replaced by exact contract stubs",
    "abstract-kernel units: K_xx + S = L.L^T with L lower triangular, positive diagonal (covers every SPD matrix)",
    "variance bounds assume the joint prior covariance of training and query points is PSD",
]


def _patch(h, chol):
    import inference.gp.regression as rg
    cv, mn = gc.patch_cov(h)
    h.patch(rg, solve_triangular=stubs.solve_triangular, zeros=ozeros)
    if getattr(chol, "__name__", "") == "chol":
        h.patch(rg, both=True, cholesky=chol)  # parametrised contract: also asserted on replay
    else:
        h.patch(rg, cholesky=chol)
    h.covers(rg.GpRegressor.__init__, rg.GpRegressor.__call__, rg.GpRegressor.set_hyperparameters, rg.GpRegressor.check_error_data,
             rg.GpRegressor.process_points, rg.GpRegressor.build_posterior)
    return rg, cv, mn


def _lower(h, name, n):
    L = ozeros((n, n)) if h.sym else np.zeros((n, n))
    for i in range(n):
        for j in range(i + 1):
            L[i, j] = h.real(f"{name}_{i}_{j}", pos=(i == j))
    return L


def _abstract(h, cv, mn, d, n, L, S, joint=None):
    """kernel/mean whose values are arbitrary (uninterpreted) functions of the points"""
    kf = h.ufunc("k", 2 * d)
    mf = h.ufunc("m", d)
    dt = object if h.sym else float

    class AbsKernel(cv.CovarianceFunction):
        bounds = [(-1.0, 1.0)]
        n_params = 1
        hyperpar_labels = ["abstract"]

        def pass_spatial_data(self, x):
            self.x = x

        def estimate_hyperpar_bounds(self, y):
            pass

        def __call__(self, u, v, theta):
            u, v = np.asarray(u), np.asarray(v)
            if joint is not None:
                ell, mu2 = joint
                if v is self.x:
                    return (L @ ell)[None, :]
                return np.array([[ell @ ell + mu2]], dtype=dt)
            out = np.empty((u.shape[0], v.shape[0]), dtype=dt)
            for i in range(u.shape[0]):
                for j in range(v.shape[0]):
                    out[i, j] = kf(u[i], v[j]) + kf(v[j], u[i])
            return out

        def build_covariance(self, theta):
            return L @ L.T - S

        def covariance_and_gradients(self, theta):
            raise NotImplementedError

    class AbsMean(mn.MeanFunction):
        bounds = [(-1.0, 1.0)]
        n_params = 1
        hyperpar_labels = ["abstract mean"]

        def pass_spatial_data(self, x):
            self.x = x

        def estimate_hyperpar_bounds(self, y):
            pass

        def __call__(self, q, theta):
            return mf(np.asarray(q).ravel())

        def build_mean(self, theta):
            return np.array([mf(p) for p in self.x], dtype=dt)

        def mean_and_gradients(self, theta):
            raise NotImplementedError
    return AbsKernel(), AbsMean(), kf, mf


def _solve_ref(h, L, B, name):
    """(L L^T)^-1 B by substitution, certified by the residual identity (checks the oracle itself)"""
    if h.sym:
        X = stubs.solve_triangular(L.T, stubs.solve_triangular(L, B, lower=True))
        h.eq(f"oracle solve residual ({name})", (L @ L.T) @ X, B)
        return X
    return np.linalg.solve(L @ L.T, B)


QA = [dict(n=1, nq=1, d=1), dict(n=2, nq=2, d=1), dict(n=2, nq=1, d=2), dict(n=3, nq=1, d=1)]
TA = [dict(n=3, nq=2, d=1), dict(n=3, nq=2, d=2)]


@unit("C02", quick=QA, thorough=TA, cost=4)
def posterior_closed_form_abstract_kernel(h, n, nq, d):
    L = _lower(h, "L", n)
    rg, cv, mn = _patch(h, stubs.make_param_cholesky(h, L, "regression.cholesky"))
    e = h.real("yerr", n, pos=True)
    S = np.diag(e ** 2)
    x = h.real("x", (n, d))
    y = h.real("y", n)
    K, M, kf, mf = _abstract(h, cv, mn, d, n, L, S)
    th = h.real("theta", 2)
    gp = rg.GpRegressor(x, y, y_err=e, hyperpars=th, kernel=K, mean=M)
    q = h.real("q", (nq, d))
    mu, sig = gp(q)
    Kqx = K(q, x, th[1:])
    Kqq = K(q, q, th[1:])
    mx = np.array([mf(p) for p in x], dtype=object if h.sym else float)
    mq = np.array([mf(p) for p in q], dtype=object if h.sym else float)
    by = _solve_ref(h, L, y - mx, "y - m(x)")
    Bq = _solve_ref(h, L, Kqx.T, "K_xq")
    mu_ref = mq + Kqx @ by
    cov_ref = Kqq - Kqx @ Bq
    h.eq("mean == m(q) + K_qx (K_xx+S)^-1 (y - m(x))", mu, mu_ref)
    h.eq("sigma^2 == |K_qq - K_qx (K_xx+S)^-1 K_xq|", sig ** 2, abs(np.diag(cov_ref)))
    mu2, cov2 = gp.build_posterior(q)
    h.eq("build_posterior mean == closed form", mu2, mu_ref)
    h.eq("build_posterior covariance == closed form", cov2, cov_ref)
    h.eq("mean_only == mean of the full call", gp.build_posterior(q, mean_only=True), mu2)
    h.eq("point-wise variance == |diagonal of the joint covariance|", sig ** 2, abs(np.diag(cov2)))


@unit("C02", quick=[dict(n=1), dict(n=2)], thorough=[dict(n=3)], cost=3)
def variance_between_zero_and_prior(h, n):
    """joint prior covariance of (x, q) = M M^T with M = [[L, 0], [ell^T, mu]] (any PSD joint)"""
    d = 1
    L = _lower(h, "L", n)
    rg, cv, mn = _patch(h, stubs.make_param_cholesky(h, L, "regression.cholesky"))
    ell = h.real("ell", n)
    mu_ = h.real("mu")
    e = h.real("yerr", n, pos=True)
    S = np.diag(e ** 2)
    x = h.real("x", (n, d))
    y = h.real("y", n)
    # the noise-free joint covariance [[LL^T - S, L ell],[.., ell.ell + mu^2]] is only PSD if LL^T - S is:
    # parametrise instead the noisy joint, i.e. predictive variance of a noisy observation's latent part
    K, M, kf, mf = _abstract(h, cv, mn, d, n, L, S, joint=(ell, mu_ * mu_))
    th = h.real("theta", 2)
    gp = rg.GpRegressor(x, y, y_err=e, hyperpars=th, kernel=K, mean=M)
    q = h.real("q", (1, d))
    mu, sig = gp(q)
    prior_var = ell @ ell + mu_ * mu_
    h.ge("sigma^2 >= 0", sig ** 2, 0.0)
    h.le("sigma^2 <= prior variance K_qq", sig[0] ** 2, prior_var)
    h.eq("sigma^2 == Schur complement mu^2", sig[0] ** 2, mu_ * mu_)
    _, cov = gp.build_posterior(q)
    h.eq("joint covariance == Schur complement", cov[0, 0], mu_ * mu_)


def _real_kernel(h, cv, key, n, d):
    spec = {"SE": "SE", "RQ": "RQ", "SE+WN": ("sum", ["SE", "WN"]), "SE+HN": ("sum", ["SE", "HN"]), "CP2": ("cp", ["SE", "SE"]), "CP3": ("cp", ["SE", "SE", "SE"])}[key]
    K = gc.build_kernel(cv, spec)
    p = gc.n_params(spec, n, d)
    K.bounds = [(-5.0, 5.0)] * p
    return spec, K, p


QR = [dict(key="SE", mean="const", n=2, d=1), dict(key="SE+WN", mean="lin", n=2, d=1), dict(key="SE+HN", mean="const", n=2, d=2),
      dict(key="RQ", mean="quad", n=2, d=1), dict(key="RQ", mean="const", n=2, d=2)]
TR = [dict(key="SE", mean="lin", n=2, d=2), dict(key="SE+HN", mean="quad", n=2, d=2),
      dict(key="SE+WN", mean="const", n=2, d=2)]


@unit("C02", quick=QR, thorough=TR, cost=6, timeout_ms=40000)
def posterior_closed_form_real_kernels(h, key, mean, n, d):
    """real kernel and mean classes.  The data-error covariance handed to the regressor is
    y_cov := L.L^T - K_ref(x,x) (any symmetric matrix making the total SPD), so that
    K_xx + S == L.L^T has to hold with K_xx the *real* builder's matrix (certified inside the
    cholesky contract stub) and the remaining algebra is rational in L."""
    L = _lower(h, "L", n)
    rg, cv, mn = _patch(h, stubs.make_param_cholesky(h, L, "regression.cholesky"))
    spec, K, p = _real_kernel(h, cv, key, n, d)
    M = gc.build_mean(mn, mean)
    pm = gc.mean_n_params(mean, d)
    M.bounds = [(-5.0, 5.0)] * pm
    x = h.real("x", (n, d))
    y = h.real("y", n)
    th = np.concatenate([h.real("tm", pm), gc.theta_for(h, spec, n, d, "tk")])
    tk = th[pm:]
    Kref = gc.ref_call(h, spec, x, x, tk, same_points=True)
    Kref = 0.5 * (Kref + Kref.T)
    S = L @ L.T - Kref
    gp = rg.GpRegressor(x, y, y_cov=S, hyperpars=th, kernel=K, mean=M)
    q = h.real("q", (1, d))
    mu, sig = gp(q)
    Kqx = gc.ref_call(h, spec, q, x, tk)
    Kqq = gc.ref_call(h, spec, q, q, tk)
    mx = np.array([gc.ref_mean(h, mean, x, x[i], th[:pm]) for i in range(n)], dtype=object if h.sym else float)
    mq = gc.ref_mean(h, mean, x, q[0], th[:pm])
    by = _solve_ref(h, L, y - mx, "y - m(x)")
    Bq = _solve_ref(h, L, Kqx.T, "K_xq")
    var_ref = Kqq[0, 0] - (Kqx @ Bq)[0, 0]
    h.eq("mean == textbook GP posterior mean", mu[0], mq + (Kqx @ by)[0])
    h.eq("sigma^2 == |textbook GP posterior variance|", sig[0] ** 2, abs(var_ref))
    mu2, cov2 = gp.build_posterior(q)
    h.eq("build_posterior agrees", np.array([mu2[0], cov2[0, 0]]), np.array([mq + (Kqx @ by)[0], var_ref]))


@unit("C02", quick=[dict(n=2)], cost=5, timeout_ms=60000)
def training_order_does_not_matter(h, n):
    d = 1
    rg, cv, mn = _patch(h, stubs.cholesky)
    x = h.real("x", (n, d))
    y = h.real("y", n)
    e = h.real("yerr", n, pos=True)
    kf = h.ufunc("k", 2 * d)
    mf = h.ufunc("m", d)

    def mk(xx):
        K, M, _, _ = _abstract_pointwise(h, cv, mn, d, kf, mf)
        return K, M
    th = h.real("theta", 2)
    h.allow(np.linalg.LinAlgError)
    q = h.real("q", (1, d))
    K1, M1 = mk(x)
    gp1 = rg.GpRegressor(x, y, y_err=e, hyperpars=th, kernel=K1, mean=M1)
    perm = [1, 0] + list(range(2, n)) if n == 2 else h.choice("perm", [[1, 0, 2], [1, 2, 0]])
    K2, M2 = mk(x[perm])
    gp2 = rg.GpRegressor(x[perm], y[perm], y_err=e[perm], hyperpars=th, kernel=K2, mean=M2)
    m1, c1 = gp1.build_posterior(q)
    m2, c2 = gp2.build_posterior(q)
    h.eq("mean unchanged by reordering the training points", m1, m2)
    h.eq("variance unchanged by reordering the training points", c1, c2)


def _abstract_pointwise(h, cv, mn, d, kf, mf):
    dt = object if h.sym else float

    class PK(cv.CovarianceFunction):
        bounds = [(-1.0, 1.0)]
        n_params = 1
        hyperpar_labels = ["abstract"]

        def pass_spatial_data(self, x):
            self.x = x

        def estimate_hyperpar_bounds(self, y):
            pass

        def __call__(self, u, v, theta):
            u, v = np.asarray(u), np.asarray(v)
            out = np.empty((u.shape[0], v.shape[0]), dtype=dt)
            for i in range(u.shape[0]):
                for j in range(v.shape[0]):
                    out[i, j] = kf(u[i], v[j]) + kf(v[j], u[i])
            return out

        def build_covariance(self, theta):
            return self(self.x, self.x, theta)

        def covariance_and_gradients(self, theta):
            raise NotImplementedError

    class PM(mn.MeanFunction):
        bounds = [(-1.0, 1.0)]
        n_params = 1
        hyperpar_labels = ["abstract mean"]

        def pass_spatial_data(self, x):
            self.x = x

        def estimate_hyperpar_bounds(self, y):
            pass

        def __call__(self, q, theta):
            return mf(np.asarray(q).ravel())

        def build_mean(self, theta):
            return np.array([mf(p) for p in self.x], dtype=dt)

        def mean_and_gradients(self, theta):
            raise NotImplementedError
    return PK(), PM(), kf, mf


@unit("C02", quick=[dict(n=2, d=1), dict(n=2, d=2)], cost=3)
def error_specifications_and_input_shapes_agree(h, n, d):
    L = _lower(h, "L", n)
    rg, cv, mn = _patch(h, stubs.make_param_cholesky(h, L, "regression.cholesky"))
    e = h.real("yerr", n, pos=True)
    S = np.diag(e ** 2)
    x = h.real("x", (n, d))
    y = h.real("y", n)
    th = h.real("theta", 2)
    q = h.real("q", (2, d))

    def build(**kw):
        K, M, kf, mf = _abstract(h, cv, mn, d, n, L, S)
        return rg.GpRegressor(kw.pop("x", x), y, hyperpars=th, kernel=K, mean=M, **kw)
    g1 = build(y_err=e)
    g2 = build(y_cov=np.diag(e ** 2))
    g3 = build(y_err=list(e))
    g4 = build(y_err=e, x=[list(r) for r in x]) if d > 1 else build(y_err=e, x=list(x[:, 0]))
    m1, s1 = g1(q)
    for tag, g in (("y_cov=diag(e^2)", g2), ("y_err as list", g3), ("x as list", g4)):
        m, s = g(q)
        h.eq(f"{tag}: same mean", m, m1)
        h.eq(f"{tag}: same sigma", s ** 2, s1 ** 2)
    # query-point shapes
    ml, sl = g1([list(r) for r in q])
    h.eq("query points as list of lists: same mean", ml, m1)
    h.eq("query points as list of lists: same sigma", sl ** 2, s1 ** 2)
    if d == 1:
        m1d, s1d = g1(q[:, 0])
        h.eq("1-D query array (d=1): same mean", m1d, m1)
        h.eq("1-D query array (d=1): same sigma", s1d ** 2, s1 ** 2)
    else:
        ms, ss = g1(q[0])
        h.eq("single point as 1-D array: same mean", ms[0], m1[0])
        h.eq("single point as 1-D array: same sigma", ss[0] ** 2, s1[0] ** 2)


@unit("C02", quick=[dict(key=k, n=2, d=1) for k in ("SE", "RQ", "SE+WN", "SE+RQ", "CP2", "CP3", "WN+SE", "SE+WN+RQ")] + [dict(key="SE", n=2, d=2), dict(key="RQ", n=2, d=2)],
      thorough=[dict(key=k, n=3, d=1) for k in ("CP2", "CP3", "CP4", "CP(SE,RQ)")], cost=3)
def one_covariance_function_behind_both_entry_points(h, key, n, d):
    """the closed form is stated for one covariance function k: the regressor takes K_xx from build_covariance and K_qx,
    K_qq from __call__, so the two entry points of every shipped kernel must be the same function (off the diagonal, where
    the noise kernels add their documented terms) and __call__ must be symmetric in its two point sets"""
    from harness import c10
    cv, spec, K, X, th = c10._setup(h, key, n, d)
    B = np.asarray(K.build_covariance(th))
    C = np.asarray(K(X, X, th))
    off = [(i, j) for i in range(n) for j in range(n) if i != j]
    h.eq("build_covariance == __call__(x, x) off the diagonal", np.array([B[i, j] for i, j in off], dtype=B.dtype), np.array([C[i, j] for i, j in off], dtype=C.dtype))
    Q = h.real("q", (1, d))
    h.eq("K(q, x) == K(x, q)^T", K(Q, X, th), np.asarray(K(X, Q, th)).T)


@unit("C02", quick=[dict(n=1, d=1), dict(n=2, d=1)], thorough=[dict(n=2, d=2)], cost=4, timeout_ms=60000)
def predictions_do_not_depend_on_earlier_calls(h, n, d):
    """a call sequence on one regressor: predict, evaluate the model-selection scores (value and value-and-gradient
    variants) at *other* hyper-parameters, predict again, change the hyper-parameters with set_hyperparameters, predict.
    The predictions must equal those of a regressor freshly built with the hyper-parameters currently set: what the
    closed form depends on is the data and the current hyper-parameter vector, not the history of calls"""
    import inference.gp.regression as rg
    from symnp.core import ozeros
    cv, mn = gc.patch_cov(h)
    h.patch(rg, solve_triangular=stubs.solve_triangular, zeros=ozeros, cholesky=stubs.cholesky)
    h.covers(rg.GpRegressor.set_hyperparameters, rg.GpRegressor.__call__, rg.GpRegressor.build_posterior, rg.GpRegressor.marginal_likelihood,
             rg.GpRegressor.loo_likelihood, rg.GpRegressor.marginal_likelihood_gradient, rg.GpRegressor.loo_likelihood_gradient)
    x = h.real("x", (n, d))
    y = h.real("y", n)
    e = h.real("yerr", n, pos=True)
    th1, th2, th3 = h.real("th1", d + 2), h.real("th2", d + 2), h.real("th3", d + 2)
    q = h.real("q", (1, d))
    dt = object if h.sym else float

    def mk(th):
        K = cv.SquaredExponential(hyperpar_bounds=[(-5.0, 5.0)] * (d + 1))
        M = mn.ConstantMean(hyperpar_bounds=[(-5.0, 5.0)])
        return rg.GpRegressor(x, y, y_err=e, hyperpars=th, kernel=K, mean=M)
    h.allow(np.linalg.LinAlgError)
    a, ref1 = mk(th1), mk(th1)

    def compare(tag, ref):
        for name, fa, fb in (("__call__", a(q), ref(q)), ("build_posterior", a.build_posterior(q), ref.build_posterior(q))):
            for k, (u, v) in enumerate(zip(fa, fb)):
                h.eq(f"{tag}: {name}[{k}] == fresh regressor with the current hyper-parameters", np.asarray(u), np.asarray(v))
        h.eq(f"{tag}: mean-only call", np.asarray(a.mean(q)) if hasattr(a, "mean") and callable(a.mean) and not isinstance(a.mean, mn.MeanFunction) else np.asarray(a(q)[0]), np.asarray(ref(q)[0]))
    a(q)
    for k, f in enumerate((a.marginal_likelihood, a.loo_likelihood, a.marginal_likelihood_gradient, a.loo_likelihood_gradient)):
        f(np.array(th2, dtype=dt))
        compare(f"after {f.__name__}(other)", ref1)
    a.set_hyperparameters(np.array(th3, dtype=dt))
    a.loo_likelihood(np.array(th2, dtype=dt))
    compare("after set_hyperparameters and a score call", mk(th3))
