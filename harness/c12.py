"""C12 — GaussianKDE is a faithful, normalised Gaussian kernel-density estimate (claimed in part)"""
import numpy as np
import z3

from symnp import funcs, stubs
from symnp.core import ozeros, R, SymReal, SymBool
from symnp.harness import unit

EXPLANATION = (
    "PART OF THE PROPERTY ONLY.  GaussianKDE (__init__ with a user bandwidth, __call__, cdf, BinaryTree.region_groups, "
    "unique_index_groups) is executed on a symbolic sample of 3-4 points (ties allowed), a symbolic bandwidth h > 0 and "
    "symbolic evaluation points; the layer count int(log(range/h)/log 2)+1 forks (log facts against LOG2), the sort, "
    "searchsorted and tree look-ups fork over orderings. Asserted: density >= 0; the density equals norm * sum over the "
    "region's slice of the Gaussian kernels (index logic), and every sample left out of the slice is at distance >= "
    "cutoff - (region width)/2 from the evaluation point, which bounds the truncation error by N_dropped * norm * "
    "exp(-(cutoff - w/2)^2 q^2) through monotonicity of exp (trusted step); cdf == sum over the slice of the kernel CDFs / N "
    "+ (number of samples left of the slice)/N, and those samples are at least the same margin to the left; scalar and "
    "array inputs agree; the result is invariant under reordering the sample; shifting and rescaling sample, bandwidth and "
    "evaluation point rescales the density by 1/c and leaves the cdf unchanged. NOT claimed: the numerical size of the "
    "truncation bound, monotonicity / limits of the cdf, the quality of the selected bandwidths (the rule-of-thumb selector is "
    "only shown to be the documented formula and shift/scale covariant; the cross-validated search only up to the end of its "
    "first candidate grid, whose widths must rescale with the data - the rest of that search, an iterative refinement, is "
    "outside reach), samples larger than 4."
    ' Tree look-up unit: BinaryTree.region_groups on an unordered array of symbolic points (repeats, points outside the limits) must put every point in the group of the region a scalar look-up gives, so array evaluation equals point-by-point evaluation.'
)
BOUNDS = {"quick": "fully symbolic 3 sample points with range/h in [1/2, 4); dropping regime on 2 fixed spacing patterns with symbolic shift/scale/evaluation point; (<= 2 tree layers; 1 layer for the invariance / covariance units), 1 evaluation point", "thorough": "(the fully symbolic unit with range/h in [4, 8), with two evaluation points, and the array-level unit were undecided / incomplete within the hour and were dropped: array evaluation is covered by the tree-level grouping unit); more fixed shapes (ties, 5 points) for the regime where samples are dropped from the slice; tree look-up with 2 layers"}
ASSUMPTIONS = [
    "locate_mode's scipy optimiser is replaced by a stub (the mode is not the subject)",
    "truncation error follows from the asserted distance margin by monotonicity of exp (trusted)",
]


def _kde(h, sample, bw):
    import inference.pdf.kde as kd
    h.patch(kd, zeros=ozeros, erf=funcs.erf)

    class Res:
        x = 0.0
    h.patch(kd, both=True, minimize_scalar=lambda *a, **k: Res())
    h.covers(kd.GaussianKDE.__init__, kd.GaussianKDE.__call__, kd.GaussianKDE.cdf, kd.BinaryTree.__init__,
             kd.BinaryTree.region_groups, kd.unique_index_groups)
    return kd, kd.GaussianKDE(sample, bandwidth=bw)


def _sample(h, n):
    s = h.real("s", n)
    bw = h.real("h", pos=True)
    return s, bw


def _range_ok(h, s, bw, hi=4, sorted_input=False, lo=0.5):
    """1/2 <= (max - min)/h < hi bounds the number of tree layers"""
    if sorted_input:
        for a, b in zip(s[:-1], s[1:]):
            h.assume(a <= b, "sample given in ascending order (order invariance is a separate unit)")
    if h.sym:
        mx = z3.RealVal(0)
        es = [R(v) for v in s]
        mx, mn = es[0], es[0]
        for e in es[1:]:
            mx = z3.If(e > mx, e, mx)
            mn = z3.If(e < mn, e, mn)
        h.ctx.side += [mx - mn >= R(bw) * R(lo), mx - mn < hi * R(bw)]
    else:
        r = (max(s) - min(s)) / bw
        h.assume(lo <= r < hi, f"range/h in [{lo}, {hi})")


@unit("C12", quick=[dict(n=3, nx=1, lo=0.5, hi=4), dict(n=3, nx=1, lo=0.13, hi=0.5)], thorough=[], max_paths=40000, cost=9,
      axioms_in_trunc=True, timeout_ms=40000, thorough_wall_s=3000)
def density_is_truncated_kernel_sum_with_margin(h, n, nx, lo, hi):
    s, bw = _sample(h, n)
    _range_ok(h, s, bw, hi=hi, sorted_input=True, lo=lo)
    kd, K = _kde(h, s, bw)
    x = h.real("x", nx)
    val = np.atleast_1d(K(x if nx > 1 else x[0]))
    srt = np.asarray(K.sample)
    N = len(srt)
    sqrt2, sqrtpi = h.const("sqrt2"), h.const("sqrtpi")
    norm = 1 / (N * sqrt2 * sqrtpi * bw)
    q = 1 / (sqrt2 * bw)
    cutoff = 4 * bw
    nreg = len(K.slices)
    w = (srt[-1] - srt[0]) / nreg
    for k in range(nx):
        h.ge(f"density[{k}] >= 0", val[k], 0.0)
        regs, groups = K.tree.region_groups(np.atleast_1d(x[k]))
        r = int(regs[0])
        sl = K.slices[r]
        inside = list(range(N))[sl]
        ref = norm * sum(h.exp(-((x[k] - srt[i]) * q) ** 2) for i in inside) if inside else 0.0 * bw
        h.eq(f"density[{k}] == norm * sum of the kernels of the region's slice", val[k], ref)
        for i in range(N):
            if i not in inside:
                h.ge(f"dropped sample {i} is at distance >= cutoff - w/2 from x[{k}]", abs(x[k] - srt[i]), cutoff - w / 2)
        c = K.cdf(x[k])
        left = len(list(range(N))[:sl.start]) if sl.start is not None else 0
        cref = (0.5 / N) * sum(1 + h.erf((x[k] - srt[i]) * q) for i in inside) + left / N if inside else left / N + 0.0 * bw
        h.eq(f"cdf[{k}] == slice kernel CDFs / N + (#samples left of the slice) / N", c, cref)
        for i in range(left):
            h.ge(f"sample {i} counted as fully left is at distance >= cutoff - w/2", x[k] - srt[i], cutoff - w / 2)
    if nx > 1:
        for k in range(nx):
            h.eq(f"array input agrees with scalar input [{k}]", val[k], K(x[k]))


@unit("C12", quick=[dict(n=3, g="swap"), dict(n=3, g="rot")], max_paths=20000, cost=9, axioms_in_trunc=True, timeout_ms=40000)
def density_invariant_under_sample_order(h, n, g):
    s, bw = _sample(h, n)
    _range_ok(h, s, bw, hi=2)
    idx = list(range(n))
    idx = [1, 0] + idx[2:] if g == "swap" else idx[1:] + idx[:1]
    kd, K1 = _kde(h, s, bw)
    kd, K2 = _kde(h, s[idx], bw)
    x = h.real("x")
    h.eq("pdf invariant under reordering the sample", K1(x), K2(x))
    h.eq("cdf invariant under reordering the sample", K1.cdf(x), K2.cdf(x))


@unit("C12", quick=[dict(n=3)], max_paths=20000, cost=9, axioms_in_trunc=True, timeout_ms=40000)
def density_covariant_under_shift_and_scale(h, n):
    s, bw = _sample(h, n)
    _range_ok(h, s, bw, hi=2, sorted_input=True)
    c = h.real("c", pos=True)
    b = h.real("b")
    kd, K1 = _kde(h, s, bw)
    kd, K2 = _kde(h, c * s + b, c * bw)
    x = h.real("x")
    h.eq("pdf(c x + b; c s + b, c h) == pdf(x; s, h) / c", K2(c * x + b) * c, K1(x))
    h.eq("cdf(c x + b; c s + b, c h) == cdf(x; s, h)", K2.cdf(c * x + b), K1.cdf(x))


SHAPES = {"wide3": ([0.0, 1.0, 5.0], 0.4), "ties4": ([0.0, 2.5, 2.5, 9.0], 0.5), "pair_far": ([0.0, 10.0, 10.2], 1.0),
          "wide5": ([0.0, 0.3, 4.0, 4.1, 12.0], 0.6)}


@unit("C12", quick=[dict(shape="wide3"), dict(shape="pair_far")], thorough=[dict(shape="ties4"), dict(shape="wide5")], max_paths=20000, cost=7,
      axioms_in_trunc=True, timeout_ms=40000)
def dropped_samples_keep_the_margin_on_fixed_shapes(h, shape):
    """the regime in which samples really are left out of a region's slice (range/h > 4): sample = b + c * pattern,
    bandwidth = c * h0 with a concrete pattern / h0 and symbolic shift b, scale c > 0 and evaluation point"""
    pat, h0 = SHAPES[shape]
    b = h.real("b")
    c = h.real("c", pos=True)
    dt = object if h.sym else float
    s = np.array([b + c * v for v in pat], dtype=dt)
    bw = c * h0
    kd, K = _kde(h, s, bw)
    x = h.real("x")
    srt = np.asarray(K.sample)
    N = len(srt)
    sqrt2, sqrtpi = h.const("sqrt2"), h.const("sqrtpi")
    norm = 1 / (N * sqrt2 * sqrtpi * bw)
    q = 1 / (sqrt2 * bw)
    cutoff = 4 * bw
    nreg = len(K.slices)
    w = (srt[-1] - srt[0]) / nreg
    h.le("every look-up region is narrower than one bandwidth", w, bw)
    val = K(x)
    regs, groups = K.tree.region_groups(np.atleast_1d(x))
    r = int(regs[0])
    sl = K.slices[r]
    inside = list(range(N))[sl]
    ref = norm * sum(h.exp(-((x - srt[i]) * q) ** 2) for i in inside) if inside else 0.0 * bw
    h.eq("density == norm * sum of the kernels of the region's slice", val, ref)
    dropped = [i for i in range(N) if i not in inside]
    for i in dropped:
        h.ge(f"dropped sample {i} is at distance >= cutoff - w/2", abs(x - srt[i]), cutoff - w / 2)
    left = sl.start or 0
    cref = (0.5 / N) * sum(1 + h.erf((x - srt[i]) * q) for i in inside) + left / N if inside else left / N + 0.0 * bw
    h.eq("cdf == slice kernel CDFs / N + (#samples left of the slice) / N", K.cdf(x), cref)
    for i in range(left):
        h.ge(f"sample {i} counted as fully left is at distance >= cutoff - w/2", x - srt[i], cutoff - w / 2)
    h.same("some sample is dropped on some path of this shape (non-vacuity is checked over the unit)", True, True)
    # nothing is remembered between calls, and the caller's sample is left as it was given
    h.eq("second evaluation at the same point (after a cdf call) gives the same density", K(x), val)
    h.eq("caller's sample array unchanged (values and order)", s, np.array([b + c * v for v in pat], dtype=dt))


@unit("C12", quick=[], thorough=[], max_paths=20000, cost=9, axioms_in_trunc=True, timeout_ms=40000)
def array_evaluation_equals_pointwise_evaluation(h, shape, nx):
    """an array of evaluation points in arbitrary (not monotone) order, repeated points allowed: every entry of the density
    and of the cdf must be what the scalar call returns for that point, whatever its neighbours in the array are"""
    pat, h0 = SHAPES[shape]
    b = h.real("b")
    c = h.real("c", pos=True)
    dt = object if h.sym else float
    s = np.array([b + c * v for v in pat], dtype=dt)
    bw = c * h0
    kd, K = _kde(h, s, bw)
    xs = list(h.real("x", nx - 1))
    xs.append(xs[0])   # there and back: the array ends where it started (keeps the number of symbolic points at nx-1)
    arr = np.array(xs, dtype=dt)
    dens = np.asarray(K(arr.copy()))
    cdf = np.asarray(K.cdf(arr.copy()))
    h.same("one density / cdf value per evaluation point", (dens.shape, cdf.shape), ((nx,), (nx,)))
    for k in range(nx):
        h.eq(f"density[{k}] == density of the scalar call", dens[k], K(xs[k]))
        h.eq(f"cdf[{k}] == cdf of the scalar call", cdf[k], K.cdf(xs[k]))
    h.eq("evaluation array unchanged", arr, np.array(xs, dtype=dt))


@unit("C12", quick=[dict(layers=1, nv=3)], thorough=[dict(layers=2, nv=3)], max_paths=20000, cost=6)
def every_evaluation_point_is_grouped_under_its_own_region(h, layers, nv):
    """the look-up that assigns each evaluation point the region (sample slice, cdf offset) it is evaluated with, on an
    array of symbolic points in arbitrary order (not monotone, repeats allowed, outside the limits allowed): the groups
    partition the array, and every point sits in the group of the region a scalar look-up of that point alone returns.
    Together with the per-region formulas (other units) this gives: array evaluation == point-by-point evaluation"""
    import inference.pdf.kde as kd
    h.patch(kd, zeros=ozeros)
    h.covers(kd.BinaryTree.__init__, kd.BinaryTree.region_groups, kd.unique_index_groups)
    lo = h.real("lo")
    wd = h.real("wd", pos=True)
    T = kd.BinaryTree(layers, (lo, lo + wd))
    dt = object if h.sym else float
    vals = h.real("v", nv)
    arr = np.array(vals, dtype=dt)
    regs, groups = T.region_groups(arr)
    regs = [int(r) for r in regs]
    seen = sorted(int(i) for g in groups for i in g)
    h.same("the groups partition the evaluation points", seen, list(range(nv)))
    h.same("one group per region, regions distinct", (len(regs), len(set(regs))), (len(groups), len(regs)))
    nreg = 2 ** layers
    for r, g in zip(regs, groups):
        h.same(f"region index {r} is a region of the tree", 0 <= r < nreg, True)
        for i in g:
            one_r, one_g = T.region_groups(np.array([vals[int(i)]], dtype=dt))
            h.same(f"point {int(i)} is in the group of its own region", int(one_r[0]), r)
            # and that region really contains the point (clamped to the outermost regions outside the limits)
            left = lo + wd * r / nreg
            right = lo + wd * (r + 1) / nreg
            if r > 0:
                h.ge(f"point {int(i)} >= left edge of its region", vals[int(i)], left)
            if r < nreg - 1:
                h.le(f"point {int(i)} <= right edge of its region", vals[int(i)], right)
    h.eq("evaluation array unchanged", arr, np.array(vals, dtype=dt))


@unit("C12", quick=[dict(n=3), dict(n=4)], thorough=[dict(n=5)], max_paths=2000, cost=3, timeout_ms=40000)
def rule_of_thumb_bandwidth_is_shift_and_scale_covariant(h, n):
    """bandwidth-selection mode 'rule of thumb' (no bandwidth given): the selected bandwidth of the shifted / rescaled
    sample c*s + b is c times that of s (so the estimate built on it shifts and rescales with the data, by the covariance
    unit for a given bandwidth), and it is the documented 1.06 * std / n^(1/5)"""
    import inference.pdf.kde as kd
    h.patch(kd, zeros=ozeros, erf=funcs.erf)
    h.covers(kd.GaussianKDE.simple_bandwidth_estimator)
    s = h.real("s", n)
    c = h.real("c", pos=True)
    b = h.real("b")
    dt = object if h.sym else float

    def selected(sample):
        K = object.__new__(kd.GaussianKDE)      # the selection rule alone: the rest of the constructor is other units' subject
        K.sample = np.array(sample, dtype=dt)
        return K.simple_bandwidth_estimator()
    h1 = selected(s)
    h2 = selected(c * s + b)
    mean = sum(s) / n
    var = sum((v - mean) ** 2 for v in s) / n
    h.eq("selected bandwidth == 1.06 * std / n^0.2", h1, 1.06 * h.sqrt(var) / n ** 0.2)
    h.eq("bandwidth of c*s + b == c * bandwidth of s", h2, c * h1)
    h.ge("bandwidth >= 0", h1, 0.0)


class _Stop(Exception):
    pass


@unit("C12", quick=[dict(n=3)], thorough=[dict(n=4)], max_paths=2000, cost=3, timeout_ms=40000)
def cross_validated_bandwidth_search_scales_with_the_data(h, n):
    """bandwidth-selection mode 'cross-validation': the real constructor is run with cross_validation=True on s and on
    c*s + b up to the end of the first search grid (the cross-validation score is replaced by a recorder that stops the run
    after the fifth candidate: a cut, the score itself is not executed).  The leave-one-out score of (c*s + b, c*w) differs
    from that of (s, w) by a constant, so the selected bandwidth rescales with the data iff the candidate widths do: every
    candidate width for c*s + b must be c times the corresponding candidate for s"""
    import inference.pdf.kde as kd
    h.patch(kd, zeros=ozeros, erf=funcs.erf)
    h.covers(kd.GaussianKDE.__init__, kd.GaussianKDE.cross_validation_bandwidth_estimator, kd.GaussianKDE.simple_bandwidth_estimator)
    s = h.real("s", n)
    c = h.real("c", pos=True)
    b = h.real("b")
    for a, bb in zip(s[:-1], s[1:]):
        h.assume(a < bb, "distinct sample values in ascending order (order invariance is a separate unit)")
    dt = object if h.sym else float
    seen = []

    def rec(self, samples, width, c=0.99):
        seen.append(width)
        if len(seen) % 5 == 0:
            raise _Stop()
        return 0.0
    h.patch(kd.GaussianKDE, both=True, cross_validation_logprob=rec)
    for sample in (np.array(s, dtype=dt), np.array(c * s + b, dtype=dt)):
        try:
            kd.GaussianKDE(sample, cross_validation=True)
        except _Stop:
            pass
    h.same("five candidate widths per search grid", len(seen), 10)
    if len(seen) == 10:
        for m in range(5):
            h.eq(f"candidate {m}: width for c*s + b == c * width for s", seen[5 + m], c * seen[m])
            h.ge(f"candidate {m}: positive", seen[m], 0.0, strict=True)
