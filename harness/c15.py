"""C15 — advancing a sampler adds exactly the requested number of samples"""
import numpy as np
import z3

from symnp import stubs
from symnp.core import R
from symnp.harness import unit
from harness import mcmc_common as mc

EXPLANATION = (
    "MarkovChain.advance: the method's current AST is interpreted over z3 integers (pyint, loop summarisation) and the "
    "number of take_step calls is proved equal to m for ALL m >= 0 (no bound), the encoder being validated on every run "
    "against the real method driven with a counting chain for m in {0,1,10,16,50,99,100,104,200,500}; each concrete "
    "sampler's take_step appends exactly one sample/log-probability (symbolic transition, shared with C03). "
    "EnsembleSampler.advance(k), k in {0,1,2} forked, repeated calls: stored samples / log-probabilities / chain_length grow "
    "by k * n_walkers and concatenate in order. MarkovChain.run_for with the clock replaced by arbitrary non-decreasing "
    "symbolic instants and a counting chain: no exception, every loop iteration entered with time left takes at least one "
    "whole step, the loop ends at the first check with the budget used up. ChainPool.advance with Pool replaced by its "
    "in-process map contract advances every chain once by n and keeps their order."
    " ParallelTempering.run_for (take_steps / swap replaced by counting stubs, the clock by arbitrary non-decreasing symbolic "
    "instants, int() of the cycles-per-check estimate forked by the solver): no division by zero when the clock has not moved "
    "over the timing cycle, every batch of steps is one swap interval long and followed by one exchange round, every loop "
    "iteration entered with time left runs at least one whole swap cycle however slow a cycle is, and the loop ends at the "
    "first test with the budget used up."
    " ChainPool: 1..4 chains on a machine with 1..3 cores (cpu_count is an environment stub), advanced twice; every chain exactly n steps per call, returned in the caller's order."
    ' Twin-chain unit: two chains built from the same symbolic inputs whose own generators hand out the same symbolic draws take identical steps (module-level numpy.random functions are an environment stub returning fresh arbitrary numbers). One step of every chain sampler stores exactly one sample and one log-probability on every path through its retry loop.'
)
BOUNDS = {"quick": "advance: all m >= 0; ensemble k<=2, 3 walkers, 2 calls; run_for: <=3 loop iterations, step rates <= 3 per second "
                   "(slow steps) plus the zero-elapsed-time corner; ParallelTempering.run_for: <=2 loop iterations, swap cycles of 1/2 s or "
                   "slower (no upper limit; estimate 0..4 cycles per clock check), swap_interval 1..2, plus the stalled-clock corner; pools of 1..4 chains on 1..3 cores",
          "thorough": "ensemble k<=3 with 2 walkers (3 walkers with two advances did not finish in an hour and was dropped); run_for <=4 loop iterations; ParallelTempering.run_for <=3 loop iterations"}
TECHNIQUE = "AST-to-SMT integer encoding of MarkovChain.advance with loop summarisation (z3, all m >= 0) validated against the real method; symbolic execution of ensemble advance / run_for with a symbolic clock (z3 per-path queries); counterexamples replayed"
ASSUMPTIONS = [
    "loop summarisation lemma of pyint (a loop adding a loop-invariant amount c per iteration adds c*max(N,0))",
    "the time budget (minutes, hours, days) is any non-negative real triple; time.time() returns non-decreasing instants; progress printing is disabled (ParallelTempering.run_for: sys.stdout and the divmod of its time-left message are no-op stubs)",
    "ParallelTempering.run_for is driven with take_steps / swap as counting stubs (their behaviour is decided under C08); swap cycles faster than 1/2 s (more than 4 cycles per clock check) are outside the explored bound",
    "the multiprocessing pool is its map contract (pickling round trip outside)",
]


class CountingChain:
    """minimal MarkovChain: take_step only counts"""

    def __new__(cls, *a, **k):
        import inference.mcmc.base as base
        import inference.mcmc.utilities as ut

        class _C(base.MarkovChain):
            def __init__(self, log=None):
                self.chain_length = 1
                self.n_parameters = 1
                self.ProgressPrinter = ut.ChainProgressPrinter(display=False)
                self.log = log if log is not None else []

            def take_step(self):
                self.chain_length += 1
                self.log.append(("step",))

            def get_parameter(self, index, burn=1, thin=1):
                return np.zeros(0)

            def get_probabilities(self, burn=1, thin=1):
                return np.zeros(0)

            def get_sample(self, burn=1, thin=1):
                return np.zeros((0, 1))
        return _C(*a, **k)


@unit("C15")
def advance_takes_exactly_m_steps_for_all_m(h):
    import inference.mcmc.base as base
    import pyint
    h.covers(base.MarkovChain.advance)
    calls = {"self.take_step": lambda args: {"steps": 1}}
    if h.sym:
        m = z3.Int("m")
        h.ctx.inputs["m"] = m
        h.ctx.side.append(m >= 0)
        paths, it = pyint.encode_method(base.MarkovChain.advance, {"m": m}, calls)
        h.note_assumption(f"pyint loop-summarisation lemma used {it.lemma_uses} times")
        k = h.choice_int("advance path", 0, len(paths) - 1)
        p = paths[k]
        for c in p.pc:
            h.ctx.side.append(c)
        h.true("number of take_step calls == m", p.counters["steps"] == m)
        # translator validation against the real method
        for mv in (0, 1, 10, 16, 50, 99, 100, 104, 200, 500):
            ch = CountingChain()
            ch.advance(mv)
            enc = None
            for q in paths:
                s = z3.Solver()
                s.add(m == mv, *q.pc)
                if s.check() == z3.sat:
                    enc = s.model().eval(q.counters["steps"], model_completion=True).as_long()
            h.same(f"encoder agrees with the real method for m={mv}", enc, len(ch.log))
    else:
        mv = int(round(h.values.get("m", 0)))
        ch = CountingChain()
        ch.advance(mv)
        h.same("number of take_step calls == m", len(ch.log), mv)


@unit("C15", quick=[dict(d=1, nw=2, kmax=2)], thorough=[dict(d=1, nw=2, kmax=3)], max_paths=20000, cost=8)
def ensemble_advance_grows_by_k_walkers(h, d, nw, kmax):
    ev = mc.Events()
    en, s, post, alpha, X = mc.make_ensemble(h, d, nw, ev, max_attempts=1)
    h.covers(en.EnsembleSampler.advance)
    s.failed_updates = []
    k1 = h.choice_int("k1", 0, kmax)
    k2 = h.choice_int("k2", 0, 1)
    s.advance(k1)
    n1 = 0 if s.sample is None else len(s.sample)
    h.same("after advance(k1): stored samples == k1 * n_walkers", n1, k1 * nw)
    h.same("chain_length == stored samples", s.chain_length, n1)
    first = None if s.sample is None else np.array(s.sample).copy()
    s.advance(k2)
    n2 = 0 if s.sample is None else len(s.sample)
    h.same("after a second advance(k2): stored samples == (k1 + k2) * n_walkers", n2, (k1 + k2) * nw)
    h.same("stored log-probabilities == stored samples", 0 if s.sample_probs is None else len(s.sample_probs), n2)
    h.same("chain_length == stored samples (2)", s.chain_length, n2)
    if first is not None and len(first):
        h.eq("earlier samples kept in order", np.asarray(s.sample)[:len(first)], first)
    if k2 and s.sample is not None and n2:
        h.eq("newest rows are the current walker positions", np.asarray(s.sample)[-nw:], s.walker_positions)


class Clock:
    """time.time() stub: arbitrary non-decreasing instants.  regime 'slow': every step costs at least
    1/3 s (the regime in which the update interval estimate drops to 0..3); regime 'stalled': the
    clock has not advanced at the first reading after the start (coarse timer)."""

    def __init__(self, h, log, max_calls, regime):
        self.h, self.log, self.n, self.max, self.regime = h, log, 0, max_calls, regime
        self.now = None
        self.start = None

    def __call__(self):
        from symnp.core import PathAbort
        self.n += 1
        if self.n > self.max:
            raise PathAbort("bound", "more clock readings than the explored bound")
        if self.now is None:
            self.now = self.h.real("t0", lo=0)
            self.start = self.now
        else:
            dt = self.h.real(f"dt{self.n}", lo=0)
            self.now = self.now + dt
            steps = sum(1 for e in self.log if e[0] == "step")
            if self.h.sym:
                if self.regime == "slow":
                    self.h.ctx.side.append(R(self.now - self.start) * 3 >= steps)
                elif self.regime == "stalled" and self.n == 2:
                    self.h.ctx.side.append(R(dt) == 0)
        self.log.append(("time", self.now))
        return self.now


@unit("C15", quick=[dict(iters=3, regime="slow"), dict(iters=1, regime="stalled")], thorough=[dict(iters=4, regime="slow")], max_paths=6000, cost=6)
def run_for_keeps_stepping_until_the_budget_is_used(h, iters, regime):
    import inference.mcmc.base as base
    h.covers(base.MarkovChain.run_for)
    log = []
    ch = CountingChain(log)
    clock = Clock(h, log, max_calls=2 + iters, regime=regime)
    h.patch(base, both=True, time=clock)
    h.patch(base, int=stubs.sym_int)
    minutes = h.real("minutes", lo=0)
    hours = h.real("hours", lo=0)
    days = h.real("days", lo=0)
    m0 = h.mark()
    try:
        ch.run_for(minutes=minutes, hours=hours, days=days)
    finally:
        h.defined("run_for never divides by zero (the clock may not have advanced between two readings)", 0.0, since=m0)
    # parse the log: time(start) [steps* time(check)]*
    times = [k for k, e in enumerate(log) if e[0] == "time"]
    start = log[times[0]][1]
    end = start + minutes * 60.0 + hours * 3600.0 + days * 86400.0
    for a in range(1, len(times)):
        seg = log[times[a - 1] + 1:times[a]]
        nsteps = len(seg)
        h.same(f"loop iteration {a}: at least one whole step taken", nsteps >= 1, True)
    # the loop ran while (and only while) the last reading was before the end
    for a in range(1, len(times)):
        prev = log[times[a - 1]][1]
        h.true(f"iteration {a} was entered with time left", prev < end)
    h.true("the loop stopped at the first reading with the budget used up", log[times[-1]][1] >= end)


class CycleClock:
    """time.time() stub for ParallelTempering.run_for: arbitrary non-decreasing instants; regime 'slow': a reading that
    follows k swap cycles is at least k/2 s after the previous reading (so the cycles-per-clock-check estimate
    int(2/dt) is one of 0..4; a cycle may be arbitrarily slower than that); regime 'stalled': the clock has not moved
    over the timing cycle (coarse timer, fast cycle)."""

    def __init__(self, h, log, max_calls, regime):
        self.h, self.log, self.n, self.max, self.regime = h, log, 0, max_calls, regime
        self.now = None
        self.seen = 0

    def __call__(self):
        from symnp.core import PathAbort
        self.n += 1
        if self.n > self.max:
            raise PathAbort("bound", "more clock readings than the explored bound")
        cycles = sum(1 for e in self.log if e[0] == "swap")
        if self.now is None:
            self.now = self.h.real("t0", lo=0)
        else:
            dt = self.h.real(f"dt{self.n}", lo=0)
            if self.h.sym:
                if self.regime == "stalled" and self.n == 3:
                    self.h.ctx.side.append(R(dt) == 0)
                else:
                    self.h.ctx.side.append(R(dt) * 2 >= (cycles - self.seen))
            self.now = self.now + dt
        self.seen = cycles
        self.log.append(("time", self.now))
        return self.now


class _Quiet:
    class stdout:
        write = staticmethod(lambda *a, **k: None)
        flush = staticmethod(lambda *a, **k: None)


@unit("C15", quick=[dict(iters=2, regime="slow"), dict(iters=1, regime="stalled")], thorough=[dict(iters=3, regime="slow")], max_paths=6000, cost=6)
def tempering_run_for_keeps_cycling_until_the_budget_is_used(h, iters, regime):
    """ParallelTempering.run_for driven directly (take_steps / swap are counting stubs: what they do is C08's subject)"""
    import inference.mcmc.parallel as par
    h.covers(par.ParallelTempering.run_for)
    log = []

    class PT(par.ParallelTempering):
        def __init__(self):
            pass

        def take_steps(self, n):
            log.append(("steps", n))

        def swap(self):
            log.append(("swap",))
    # readings: start, t1, t2, then two per loop iteration (loop test, time-left message) and the final loop test
    clock = CycleClock(h, log, max_calls=3 + 2 * iters + 1, regime=regime)
    h.patch(par, both=True, time=clock, sys=_Quiet, divmod=lambda a, b: (0, 0))
    h.patch(par, int=stubs.sym_int)
    minutes = h.real("minutes", lo=0)
    hours = h.real("hours", lo=0)
    interval = h.choice_int("swap_interval", 1, 2)
    pt = PT()
    m0 = h.mark()
    try:
        pt.run_for(minutes=minutes, hours=hours, swap_interval=interval)
    finally:
        h.defined("run_for never divides by zero (the clock may not have advanced over the timing cycle)", 0.0, since=m0)
    times = [k for k, e in enumerate(log) if e[0] == "time"]
    start = log[times[0]][1]
    end = start + minutes * 60.0 + hours * 3600.0
    for k, e in enumerate(log):
        if e[0] == "steps":
            h.same(f"event {k}: every batch of steps is one swap interval long", e[1], interval)
            h.same(f"event {k}: followed by one exchange round", log[k + 1][0] if k + 1 < len(log) else None, "swap")
    # readings 0,1 = start, t1; 2 = t2; 3 = first loop test; then (message, loop test) pairs
    tests = times[3::2]
    msgs = times[4::2]
    for a, (t_idx, m_idx) in enumerate(zip(tests, msgs)):
        cyc = sum(1 for e in log[t_idx + 1:m_idx] if e[0] == "swap")
        h.same(f"loop iteration {a + 1}: at least one whole swap cycle taken", cyc >= 1, True)
        h.true(f"loop iteration {a + 1} was entered with time left", log[t_idx][1] < end)
    h.true("the loop stopped at the first test with the budget used up", log[tests[-1]][1] >= end)


@unit("C15")
def chain_pool_advances_every_chain_once(h):
    import inference.mcmc.parallel as par
    h.covers(par.ChainPool.__init__, par.ChainPool.advance, par.ChainPool.adv_func)

    class PoolStub:
        def __init__(self, n):
            self.n = n

        def map(self, f, items):
            return [f(x) for x in items]
    h.patch(par, both=True, Pool=PoolStub)
    # the machine is part of the environment: any positive number of cores
    cores = h.choice_int("cpu_count", 1, 3)
    import multiprocessing
    import os
    for m in (par, multiprocessing, os):
        h.patch(m, both=True, cpu_count=lambda: cores)
    nch = h.choice_int("number of chains", 1, 4)
    logs = [[] for _ in range(nch)]
    chains = [CountingChain(lg) for lg in logs]
    pool = par.ChainPool(list(chains))
    n = h.choice_int("n", 0, 3) * 50 + h.choice_int("r", 0, 2)
    pool.advance(n)
    h.same("every chain advanced by exactly n steps", [len(lg) for lg in logs], [n] * nch)
    h.same("chains returned in the same order", [c is d for c, d in zip(pool.chains, chains)], [True] * nch)
    h.same("as many chains returned as were given", len(pool.chains), nch)
    pool.advance(n)
    h.same("second advance: every chain advanced by exactly n more steps", [len(lg) for lg in logs], [2 * n] * nch)
    h.same("second advance: chains still in the caller's order", [c is d for c, d in zip(pool.chains, chains)], [True] * nch)


@unit("C15", quick=[dict(cls="gibbs", d=1, retries=2), dict(cls="pca", d=2, retries=1), dict(cls="hmc", d=1, retries=1), dict(cls="hmc", d=2, retries=0)],
      max_paths=6000, cost=5)
def one_step_stores_one_sample_and_one_log_probability(h, cls, d, retries):
    """a single take_step of every chain sampler, on every path through its retry loop (including 'every attempt of the
    step rejected', where the documented behaviour is an exception): exactly one sample and one log-probability are
    appended and the reported chain length equals both counts.  Same execution as C03's step-invariant unit"""
    from harness import c03
    c03.constructor_and_step_preserve_invariant(h, cls, d, retries)


@unit("C15", quick=[dict(cls="gibbs", d=1, limits="boundaries"), dict(cls="gibbs", d=2, limits="nonneg"), dict(cls="metropolis", d=2, limits="none"),
                    dict(cls="pca", d=2, limits="none")], max_paths=4000, cost=5, floor_lemmas=True)
def equal_chains_with_equal_generator_states_take_equal_steps(h, cls, d, limits):
    """what makes 'a pool of chains advanced together ends in the same state as the same chains, with the same
    random-generator states, advanced one after another' true: a step is a function of the chain's own state and of the
    numbers drawn from the generators the chain owns.  Two chains are built from the same (symbolic) inputs, their own
    generators are given the same (symbolic) draws, and each takes a step; the stored samples, log-probabilities and
    lengths must coincide.  A step that consults any other source of randomness differs between the two"""
    ev1, ev2 = mc.Events(), mc.Events()

    def build(ev):
        h._names = {}     # identical input names => the two chains hold identical symbolic data and draws
        if cls == "pca":
            pca, chain, post, T, pts = mc.make_pca(h, d, ev, max_draws=2 * d)
        else:
            # (boundaries instance: unit proposal width and the box (0, 1) -- the subject is where the random numbers
            # come from, and concrete scales keep the fold arithmetic linear for the solver whatever form it is written in)
            gb, chain, post, T, pts = mc.make_metropolis_like(h, cls, d, ev, max_draws=2, widths=np.ones(d) if limits == "boundaries" else None)
            if limits == "boundaries":
                chain.set_boundaries(0, (0.0, 1.0))
            elif limits == "nonneg":
                chain.set_non_negative(d - 1)
        return chain
    A, B = build(ev1), build(ev2)
    h.allow(ValueError)
    names = dict(h._names)
    A.take_step()
    h._names = dict(names)     # the second chain's generators hand out the same (symbolic) numbers as the first one's did
    B.take_step()
    h.same("same chain length", A.chain_length, B.chain_length)
    h.eq("same stored samples", np.asarray(A.get_sample(burn=0)), np.asarray(B.get_sample(burn=0)))
    h.eq("same stored log-probabilities", np.asarray(A.get_probabilities(burn=0)), np.asarray(B.get_probabilities(burn=0)))
