"""C11 — GP model-selection scores and their gradients are what they claim to be"""
import numpy as np
import z3

from symnp import stubs
from symnp.core import R, ozeros
from symnp.harness import unit
from harness import gp_common as gc

EXPLANATION = (
    "GpRegressor.marginal_likelihood, marginal_likelihood_gradient, loo_predictions, loo_likelihood, "
    "loo_likelihood_gradient, multistart_bfgs, differential_evo and bfgs_cost_func are executed with an abstract "
    "kernel whose data covariance plus noise is L(theta).L(theta)^T with every L_ij an uninterpreted smooth function of "
    "the hyper-parameters (derivative symbols D_ijk), so covariance_and_gradients returns (K, dK/dtheta_k) consistent by "
    "construction, and an abstract mean with gradient symbols (plus the real SquaredExponential+WhiteNoise and "
    "ConstantMean/LinearMean for the gradient variants). Asserted: marginal likelihood == -1/2 r^T (K+S)^-1 r - 1/2 log "
    "det(K+S) (solve certified by residual, det(L L^T) == (prod L_ii)^2 certified); LinAlgError branch returns the "
    "documented -1e50; LOO predictions / LOO likelihood == the values obtained by actually deleting row/column i and "
    "predicting y_i from the rest; *_gradient variants return the same value and, per component, the symbolic derivative "
    "(mean slice, covariance slice in the advertised order); multi-start selection (L-BFGS-B replaced by its contract) "
    "returns hyper-parameters inside the bounds scoring at least as well as the centre of the box."
    ' Errors are given both as standard deviations and as a full symmetric covariance matrix (y_cov).'
)
BOUNDS = {"quick": "n<=2 data points (LOO n<=3 values), <=2 hyper-parameters per part, 2 optimiser starts",
          "thorough": "n=3 data points (abstract kernel), real-kernel gradient variants n=2 (explicit Cholesky for n=3 undecided within 120 s), 3 optimiser starts"}
ASSUMPTIONS = [
    "floats as reals; cholesky/solve_triangular exact contract stubs; K_xx+S = L.L^T parametrisation",
    "L-BFGS-B contract: returns a point inside the given bounds whose cost is no worse than the start's; "
    "differential_evolution contract: returns a point inside the bounds (what the compiled optimisers actually do is outside)",
    "scores are compared up to the fixed -n/2 log(2 pi) constant as the property states",
]


def _lower_uf(h, n, p, th):
    """L(theta): lower triangular, entries uninterpreted smooth functions of theta, positive diagonal"""
    dt = object if h.sym else float
    L = ozeros((n, n)) if h.sym else np.zeros((n, n))
    dL = [ozeros((n, n)) if h.sym else np.zeros((n, n)) for _ in range(p)]
    fns = {}
    for i in range(n):
        for j in range(i + 1):
            fns[(i, j)] = gc.smooth_ufunc(h, f"Lf{i}{j}", p, seed=3 * i + j, positive=(i == j))

    def at(t):
        Lm = ozeros((n, n)) if h.sym else np.zeros((n, n))
        dLm = [ozeros((n, n)) if h.sym else np.zeros((n, n)) for _ in range(p)]
        for (i, j), (F, dF) in fns.items():
            Lm[i, j] = F(t)
            if i == j and h.sym:
                h.ctx.side.append(Lm[i, j].e > 0)
            for k in range(p):
                dLm[k][i, j] = dF[k](t)
        return Lm, dLm
    return at


def _setup(h, n, pk, pm, with_param_chol=True, errform="err"):
    import inference.gp.regression as rg
    cv, mn = gc.patch_cov(h)
    h.patch(rg, solve_triangular=stubs.solve_triangular, zeros=ozeros)
    h.covers(rg.GpRegressor.marginal_likelihood, rg.GpRegressor.marginal_likelihood_gradient, rg.GpRegressor.loo_predictions,
             rg.GpRegressor.loo_likelihood, rg.GpRegressor.loo_likelihood_gradient, rg.GpRegressor.set_hyperparameters)
    dt = object if h.sym else float
    e = h.real("yerr", n, pos=True)
    S = np.diag(e ** 2)
    if errform == "cov":
        # errors given as a full covariance matrix: arbitrary symmetric off-diagonal terms (positive definiteness of the
        # total K + S is carried by the L L^T parametrisation)
        S = np.array(S, dtype=dt)
        for i in range(n):
            for j in range(i):
                S[i, j] = S[j, i] = h.real(f"ycov_{i}_{j}")
    x = h.real("x", (n, 1))
    y = h.real("y", n)
    Lat = _lower_uf(h, n, pk, None)
    mfs = [gc.smooth_ufunc(h, f"mf{i}", pm, seed=11 + i) for i in range(n)]
    current = {}

    class AbsKernel(cv.CovarianceFunction):
        bounds = [(-1.0, 1.0)] * pk
        n_params = pk
        hyperpar_labels = [f"k{i}" for i in range(pk)]

        def pass_spatial_data(self, xx):
            pass

        def estimate_hyperpar_bounds(self, yy):
            pass

        def __call__(self, u, v, theta):
            raise NotImplementedError

        def build_covariance(self, theta):
            Lm, _ = Lat(theta)
            current["L"] = Lm
            return Lm @ Lm.T - S

        def covariance_and_gradients(self, theta):
            Lm, dLm = Lat(theta)
            current["L"] = Lm
            return Lm @ Lm.T - S, [d @ Lm.T + Lm @ d.T for d in dLm]

    class AbsMean(mn.MeanFunction):
        bounds = [(-1.0, 1.0)] * pm
        n_params = pm
        hyperpar_labels = [f"m{i}" for i in range(pm)]

        def pass_spatial_data(self, xx):
            pass

        def estimate_hyperpar_bounds(self, yy):
            pass

        def __call__(self, q, theta):
            raise NotImplementedError

        def build_mean(self, theta):
            return np.array([F(theta) for F, dF in mfs], dtype=dt)

        def mean_and_gradients(self, theta):
            return self.build_mean(theta), [np.array([dF[k](theta) for F, dF in mfs], dtype=dt) for k in range(pm)]

    calls = [0]

    def chol(K):
        calls[0] += 1
        Lm = current["L"]
        h.eq(f"cholesky argument == L(theta) L(theta)^T [{calls[0]}]", np.asarray(K), Lm @ Lm.T)
        return Lm.copy() if h.sym else np.linalg.cholesky(np.asarray(K, dtype=float))
    h.patch(rg, both=True, cholesky=chol)
    th0 = h.real("th0", pm + pk)
    if errform == "cov":
        gp = rg.GpRegressor(x, y, y_cov=S, hyperpars=th0, kernel=AbsKernel(), mean=AbsMean())
    else:
        gp = rg.GpRegressor(x, y, y_err=e, hyperpars=th0, kernel=AbsKernel(), mean=AbsMean())
    return rg, gp, x, y, e, S, Lat, mfs, current


def _ref_lml(h, gp, y, Lat, mfs, th, pm):
    """-1/2 r^T (LL^T)^-1 r - 1/2 log det(LL^T), written independently"""
    n = len(y)
    Lm, _ = Lat(th[pm:])
    r = y - np.array([F(th[:pm]) for F, dF in mfs], dtype=object if h.sym else float)
    KS = Lm @ Lm.T
    if h.sym:
        beta = stubs.solve_triangular(Lm.T, stubs.solve_triangular(Lm, r, lower=True))
        h.eq("oracle: (K+S) beta == r", KS @ beta, r)
        prod = Lm[0, 0]
        for i in range(1, n):
            prod = prod * Lm[i, i]
        h.eq("oracle: det(L L^T) == (prod L_ii)^2", stubs.det(KS), prod * prod)
        logdet = h.log(prod * prod)
    else:
        beta = np.linalg.solve(KS, r)
        logdet = np.log(np.linalg.det(KS))
    return -0.5 * (r @ beta) - 0.5 * logdet


@unit("C11", quick=[dict(n=1, pk=1, pm=1), dict(n=2, pk=2, pm=1), dict(n=2, pk=1, pm=1, errform="cov")],
      thorough=[dict(n=3, pk=2, pm=2), dict(n=2, pk=2, pm=2), dict(n=3, pk=1, pm=1, errform="cov")], cost=4)
def marginal_likelihood_is_mvn_logpdf(h, n, pk, pm, errform="err"):
    rg, gp, x, y, e, S, Lat, mfs, cur = _setup(h, n, pk, pm, errform=errform)
    th = h.real("th", pm + pk)
    val = gp.marginal_likelihood(th)
    h.eq("marginal_likelihood == -1/2 r^T (K+S)^-1 r - 1/2 log det(K+S)", val, _ref_lml(h, gp, y, Lat, mfs, th, pm))
    v2, g = gp.marginal_likelihood_gradient(th)
    h.eq("value-and-gradient variant returns the same value", v2, val)
    h.same("gradient length", len(g), pm + pk)
    h.is_gradient("marginal_likelihood_gradient == d value / d theta (mean slice first, then covariance)",
                  lambda t: gp.marginal_likelihood(t), th, g)
    c, cg = gp.bfgs_cost_func(th)
    h.eq("bfgs cost == -score", c, -v2)
    h.eq("bfgs cost gradient == -gradient", cg, -np.asarray(g))


@unit("C11", quick=[dict(which="marginal"), dict(which="loo")])
def cholesky_failure_returns_sentinel(h, which):
    rg, gp, x, y, e, S, Lat, mfs, cur = _setup(h, 2, 1, 1)

    def bad(K):
        raise np.linalg.LinAlgError("not positive definite")
    h.patch(rg, both=True, cholesky=bad)
    th = h.real("th", 2)
    val = gp.marginal_likelihood(th) if which == "marginal" else gp.loo_likelihood(th)
    h.eq("documented sentinel -1e50", val, -1e50)


def _delete(M, i):
    return np.delete(np.delete(M, i, 0), i, 1)


def _loo_ref(h, y, mvec, KS):
    """predict y_i from the other points by actually removing row/column i"""
    n = len(y)
    mus, vars_ = [], []
    for i in range(n):
        keep = [j for j in range(n) if j != i]
        if not keep:
            mus.append(mvec[i])
            vars_.append(KS[i, i])
            continue
        Kmm = KS[np.ix_(keep, keep)]
        kim = KS[i, keep]
        W = stubs.adj_inverse(Kmm) if h.sym else np.linalg.inv(np.asarray(Kmm, dtype=float))
        rm = (y - mvec)[keep]
        mus.append(mvec[i] + kim @ (W @ rm))
        vars_.append(KS[i, i] - kim @ (W @ kim))
    dt = object if h.sym else float
    return np.array(mus, dtype=dt), np.array(vars_, dtype=dt)


@unit("C11", quick=[dict(n=2, pk=1, pm=1), dict(n=3, pk=1, pm=1, grad=False), dict(n=2, pk=1, pm=1, errform="cov"), dict(n=3, pk=1, pm=1, grad=False, errform="cov")],
      thorough=[dict(n=3, pk=2, pm=1)], cost=6, timeout_ms=60000)
def loo_equals_actual_deletion(h, n, pk, pm, grad=True, errform="err"):
    rg, gp, x, y, e, S, Lat, mfs, cur = _setup(h, n, pk, pm, errform=errform)
    th = h.real("th", pm + pk)
    h.allow(np.linalg.LinAlgError)
    gp.loo_predictions()             # an earlier call with the hyper-parameters of construction: nothing of it may survive
    gp.set_hyperparameters(th)
    Lm, _ = Lat(th[pm:])
    KS = Lm @ Lm.T
    mvec = np.array([F(th[:pm]) for F, dF in mfs], dtype=object if h.sym else float)
    mu_ref, var_ref = _loo_ref(h, y, mvec, KS)
    mu, sigma = gp.loo_predictions()
    h.eq("loo_predictions mean == prediction with point i removed", mu, mu_ref)
    h.eq("loo_predictions sigma^2 == predictive variance with point i removed", sigma ** 2, var_ref)
    ref = sum(-0.5 * ((y[i] - mu_ref[i]) ** 2 / var_ref[i] + h.log(var_ref[i])) for i in range(n))
    val = gp.loo_likelihood(th)
    h.eq("loo_likelihood == sum_i log N(y_i; mu_-i, var_-i) (+const)", val, ref)
    if grad:
        v2, g = gp.loo_likelihood_gradient(th)
        h.eq("value-and-gradient variant returns the same value", v2, val)
        h.is_gradient("loo_likelihood_gradient == d value / d theta", lambda t: gp.loo_likelihood(t), th, g)


@unit("C11", quick=[dict(mean="const", n=2), dict(mean="lin", n=2)], thorough=[dict(mean="quad", n=2)], cost=6, timeout_ms=60000)
def real_kernel_gradients(h, mean, n):
    """real SquaredExponential + WhiteNoise and real mean classes through the gradient variants.
    y_cov := L L^T - K_ref(theta0) fixes the noise so that the factor at theta0 is known; the gradient
    is checked at theta0 by differentiating the real value function's *formula* in theta."""
    import inference.gp.regression as rg
    cv, mn = gc.patch_cov(h)
    h.patch(rg, solve_triangular=stubs.solve_triangular, zeros=ozeros, cholesky=stubs.cholesky)
    h.covers(rg.GpRegressor.marginal_likelihood_gradient, rg.GpRegressor.loo_likelihood_gradient)
    d = 1
    spec = ("sum", ["SE", "WN"])
    K = gc.build_kernel(cv, spec)
    pk = gc.n_params(spec, n, d)
    K.bounds = [(-5.0, 5.0)] * pk
    M = gc.build_mean(mn, mean)
    pm = gc.mean_n_params(mean, d)
    M.bounds = [(-5.0, 5.0)] * pm
    x = h.real("x", (n, d))
    y = h.real("y", n)
    e = h.real("yerr", n, pos=True)
    th = h.real("th", pm + pk)
    h.allow(np.linalg.LinAlgError)
    gp = rg.GpRegressor(x, y, y_err=e, hyperpars=th, kernel=K, mean=M)
    v, g = gp.marginal_likelihood_gradient(th)
    h.eq("same value", v, gp.marginal_likelihood(th))
    h.is_gradient("marginal_likelihood_gradient (real kernel/mean)", lambda t: gp.marginal_likelihood(t), th, g)


# --------------------------------------------------------------------------------- optimiser logic
@unit("C11", quick=[dict(starts=2, p=1), dict(starts=2, p=2)], thorough=[dict(starts=3, p=2)], max_paths=4000)
def multistart_selection(h, starts, p):
    import inference.gp.regression as rg
    rg_, gp, x, y, e, S, Lat, mfs, cur = _setup(h, 2, 1, 1)
    h.covers(rg.GpRegressor.multistart_bfgs, rg.GpRegressor.launch_bfgs, rg.GpRegressor.bfgs_cost_func)
    lo = h.real("blo", p)
    wd = h.real("bwd", p, pos=True)
    gp.hp_bounds = [(lo[i], lo[i] + wd[i]) for i in range(p)]
    score, dscore = gc.smooth_ufunc(h, "score", p, seed=5)
    dt = object if h.sym else float
    gp.model_selector_gradient = lambda t: (score(t), np.array([d(t) for d in dscore], dtype=dt))
    rng = stubs.SymRng(h, "starts")
    h.patch(rg, both=True, random=lambda size=None: rng.random(size=size))
    launched = []

    def lbfgs_contract(func, x0, approx_grad=False, bounds=None, **kw):
        """returns a feasible point whose cost is no worse than the start's"""
        k = len(launched)
        frac = h.real(f"opt{k}", p, lo=0, hi=1)
        xs = np.array([b[0] + frac[i] * (b[1] - b[0]) for i, b in enumerate(bounds)], dtype=dt)
        f0, _ = func(np.asarray(x0))
        fs, _ = func(xs)
        h.assume(fs <= f0, "L-BFGS-B contract: result no worse than its start")
        launched.append((np.asarray(x0), xs, fs))
        return xs, fs, {"warnflag": 0}
    real_lbfgs = rg.fmin_l_bfgs_b

    def lbfgs_recorder(func, x0, *a, **kw):     # replay: the real optimiser, with its starting point recorded
        out = real_lbfgs(func, x0, *a, **kw)
        launched.append((np.asarray(x0, dtype=float).copy(), np.asarray(out[0]), out[1]))
        return out
    h.patch(rg, cholesky=rg.cholesky)
    h.patch(rg, both=True, fmin_l_bfgs_b=lbfgs_contract if h.sym else lbfgs_recorder)
    sol = gp.multistart_bfgs(starts=starts, n_processes=1)
    h.same("one optimiser launch per start", len(launched) if h.sym else starts, starts)
    h.ge("selected hyper-parameters >= lower bounds", sol, lo)
    h.le("selected hyper-parameters <= upper bounds", sol, lo + wd)
    centre = lo + 0.5 * wd
    h.ge("score(selected) >= score(centre of the bounds box)", score(sol), score(centre))
    if launched:
        # the clause "scores at least as well as the centre of the bounds box" holds for every conforming optimiser only
        # because one of the launches starts at the centre
        if h.sym:
            from symnp.core import SymBool
            h.true("one of the optimiser launches starts at the centre of the box",
                   SymBool(z3.Or(*[z3.And(*[R(a) == R(b) for a, b in zip(np.asarray(x0).ravel(), np.asarray(centre).ravel())]) for x0, _, _ in launched])))
        else:
            h.true("one of the optimiser launches starts at the centre of the box",
                   any(np.allclose(np.asarray(x0, dtype=float), np.asarray(centre, dtype=float), rtol=1e-12, atol=1e-12) for x0, _, _ in launched))
    if h.sym:
        for k, (x0, xs, fs) in enumerate(launched):
            h.ge(f"start {k} inside the bounds (lower)", x0, lo)
            h.le(f"start {k} inside the bounds (upper)", x0, lo + wd)
            h.le(f"selected is the best of the optimiser results [{k}]", -score(sol), fs)


@unit("C11")
def differential_evolution_inside_bounds(h):
    import inference.gp.regression as rg
    rg_, gp, x, y, e, S, Lat, mfs, cur = _setup(h, 2, 1, 1)
    h.covers(rg.GpRegressor.differential_evo)
    p = 2
    lo = h.real("blo", p)
    wd = h.real("bwd", p, pos=True)
    gp.hp_bounds = [(lo[i], lo[i] + wd[i]) for i in range(p)]
    score, _ = gc.smooth_ufunc(h, "score", p, seed=5)
    gp.model_selector = lambda t: score(t)
    seen = {}

    def de_contract(func, bounds, **kw):
        frac = h.real("de", p, lo=0, hi=1)
        xs = np.array([b[0] + frac[i] * (b[1] - b[0]) for i, b in enumerate(bounds)], dtype=object)
        seen["cost"] = func(xs)

        class R:
            x = xs
            fun = seen["cost"]
        return R()
    _, dscore = gc.smooth_ufunc(h, "score_grad", p, seed=6)
    gp.model_selector_gradient = lambda t: (score(t), np.array([d(t) for d in dscore], dtype=object if h.sym else float))

    def lbfgs_contract(func, x0, fprime=None, args=(), approx_grad=False, bounds=None, **kw):
        """any other optimiser the selection may hand its result to: returns a point inside the bounds *it was given* and
        no worse than its start -- anywhere at all when it was given no bounds"""
        k = len(seen.setdefault("polish", []))
        if bounds is None:
            xs = np.array(h.real(f"free{k}", p), dtype=object)
        else:
            fr = h.real(f"pol{k}", p, lo=0, hi=1)
            xs = np.array([b[0] + fr[i] * (b[1] - b[0]) for i, b in enumerate(bounds)], dtype=object)
        seen["polish"].append(xs)
        return xs, func(xs)[0] if not approx_grad else func(xs), {"warnflag": 0}
    h.patch(rg, differential_evolution=de_contract, fmin_l_bfgs_b=lbfgs_contract)
    sol = gp.differential_evo()
    h.ge("selected >= lower bounds", sol, lo)
    h.le("selected <= upper bounds", sol, lo + wd)
    if h.sym and not seen.get("polish"):
        h.eq("the optimiser minimises the negative score", seen["cost"], -score(sol))


@unit("C11", quick=[dict(key="CP3"), dict(key="CP2")], thorough=[dict(key="CP4")], cost=5)
def score_gradients_rest_on_true_kernel_gradients(h, key):
    """'the value-and-gradient variants return the true gradient' for every kernel: the score gradients are assembled from
    covariance_and_gradients, so they are the true gradients only if those matrices are the true partial derivatives of the
    covariance -- also for change-point kernels with 3 and more regions, which the closed-form units above do not use.
    Same execution as C10's gradient unit, asserted here for C11"""
    from harness import c10
    c10.gradients_are_partial_derivatives(h, key, 2, 1)
