"""shared builders for the GP harnesses: kernels / mean functions by spec, with independent
textbook reference formulas written in the harness."""
import numpy as np

from symnp import funcs, stubs
from symnp.core import ozeros, oones


def patch_cov(h):
    import inference.gp.covariance as cv
    import inference.gp.mean as mn
    h.patch(cv, zeros=ozeros)
    h.patch(mn, zeros=ozeros, ones=oones)
    return cv, mn


# spec grammar:  "SE" | "RQ" | "WN" | "HN" | ("sum", [specs]) | ("cp", [specs])
def build_kernel(cv, spec):
    if spec == "SE":
        return cv.SquaredExponential()
    if spec == "RQ":
        return cv.RationalQuadratic()
    if spec == "WN":
        return cv.WhiteNoise()
    if spec == "HN":
        return cv.HeteroscedasticNoise()
    kind, parts = spec
    ks = [build_kernel(cv, p) for p in parts]
    if kind == "sum":
        out = ks[0]
        for k in ks[1:]:
            out = out + k
        return out
    if kind == "cp":
        return cv.ChangePoint(kernels=ks, axis=0)
    raise ValueError(spec)


def n_params(spec, n, d):
    if spec == "SE":
        return d + 1
    if spec == "RQ":
        return d + 2
    if spec == "WN":
        return 1
    if spec == "HN":
        return n
    kind, parts = spec
    tot = sum(n_params(p, n, d) for p in parts)
    return tot + (2 * (len(parts) - 1) if kind == "cp" else 0)


def labels(spec, n, d):
    if spec == "SE":
        return ["SqrExp log-amplitude"] + [f"SqrExp log-scale {i}" for i in range(d)]
    if spec == "RQ":
        return ["RQ log-amplitude", "RQ log-alpha"] + [f"RQ log-scale {i}" for i in range(d)]
    if spec == "WN":
        return ["WhiteNoise log-sigma"]
    if spec == "HN":
        return [f"log_sigma_{i+1}" for i in range(n)]
    kind, parts = spec
    if kind == "sum":
        return [f"K{i+1}: {s}" for i, p in enumerate(parts) for s in labels(p, n, d)]
    out = [f"ChngPnt K{i}: {s}" for i, p in enumerate(parts) for s in labels(p, n, d)]
    for i in range(len(parts) - 1):
        out += [f"ChngPnt{i} location", f"ChngPnt{i} width"]
    return out


def ref_call(h, spec, U, V, th, same_points=False, jitter=False):
    """textbook covariance matrix between point sets U (m x d) and V (k x d).
    same_points=True adds the documented diagonal terms of the data-covariance builder."""
    m, k, d = len(U), len(V), U.shape[1]
    K = np.empty((m, k), dtype=object if h.sym else float)
    if spec in ("SE", "RQ"):
        a2 = h.exp(2 * th[0])
        for i in range(m):
            for j in range(k):
                if spec == "SE":
                    q = sum(((U[i, c] - V[j, c]) / h.exp(th[1 + c])) ** 2 for c in range(d))
                    K[i, j] = a2 * h.exp(-0.5 * q)
                else:
                    al = h.exp(th[1])
                    q = sum(((U[i, c] - V[j, c]) / h.exp(th[2 + c])) ** 2 for c in range(d))
                    K[i, j] = a2 * h.exp(-al * h.log(1 + q / (2 * al)))
                if same_points and i == j:
                    K[i, j] = K[i, j] + 1e-12 * a2
        return K
    if spec == "WN":
        for i in range(m):
            for j in range(k):
                K[i, j] = h.exp(2 * th[0]) if (same_points and i == j) else 0.0 * th[0]
        return K
    if spec == "HN":
        for i in range(m):
            for j in range(k):
                K[i, j] = h.exp(2 * th[i]) if (same_points and i == j) else 0.0 * th[0]
        return K
    kind, parts = spec
    n = m
    counts = [n_params(p, n, d) for p in parts]
    offs = np.concatenate([[0], np.cumsum(counts)]).astype(int)
    Ks = [ref_call(h, p, U, V, th[offs[i]:offs[i + 1]], same_points) for i, p in enumerate(parts)]
    if kind == "sum":
        out = Ks[0]
        for x in Ks[1:]:
            out = out + x
        return out
    # change point along axis 0
    cps = [(th[offs[-1] + 2 * i], th[offs[-1] + 2 * i + 1]) for i in range(len(parts) - 1)]

    def f(x, c, w):
        return 1.0 / (1.0 + h.exp(-(x - c) / w))
    out = None
    for t, Kt in enumerate(Ks):
        W = np.empty((m, k), dtype=object if h.sym else float)
        for i in range(m):
            for j in range(k):
                wgt = 1.0
                if t < len(parts) - 1:  # a_t = (1-f_t(u))(1-f_t(v))
                    c, w = cps[t]
                    wgt = wgt * (1 - f(U[i, 0], c, w)) * (1 - f(V[j, 0], c, w))
                if t > 0:  # b_{t-1} = f_{t-1}(u) f_{t-1}(v)
                    c, w = cps[t - 1]
                    wgt = wgt * f(U[i, 0], c, w) * f(V[j, 0], c, w)
                W[i, j] = wgt
        out = Kt * W if out is None else out + Kt * W
    return out


def theta_for(h, spec, n, d, name="th"):
    """symbolic hyper-parameter vector; change-point widths are positive"""
    p = n_params(spec, n, d)
    th = h.real(name, p)
    if isinstance(spec, tuple) and spec[0] == "cp":
        base = sum(n_params(q, n, d) for q in spec[1])
        for i in range(len(spec[1]) - 1):
            h.assume(th[base + 2 * i + 1] > 0, "change-point widths are positive")
    if isinstance(spec, tuple):
        # nested change points
        off = 0
        for q in spec[1]:
            if isinstance(q, tuple) and q[0] == "cp":
                base = off + sum(n_params(r, n, d) for r in q[1])
                for i in range(len(q[1]) - 1):
                    h.assume(th[base + 2 * i + 1] > 0, "change-point widths are positive")
            off += n_params(q, n, d)
    return th


# ----------------------------------------------------------------------------- mean functions
def build_mean(mn, spec):
    return {"const": mn.ConstantMean, "lin": mn.LinearMean, "quad": mn.QuadraticMean}[spec]()


def mean_n_params(spec, d):
    return {"const": 1, "lin": 1 + d, "quad": 1 + 2 * d}[spec]


def ref_mean(h, spec, X, q, th):
    """textbook mean function value at point q (X = training inputs, used for centring)"""
    d = X.shape[1]
    if spec == "const":
        return th[0] + 0 * q[0]
    xm = X.sum(axis=0) / len(X)
    if spec == "lin":
        return th[0] + sum((q[c] - xm[c]) * th[1 + c] for c in range(d))
    return th[0] + sum((q[c] - xm[c]) * th[1 + c] for c in range(d)) + sum((q[c] - xm[c]) ** 2 * th[1 + d + c] for c in range(d))


# ----------------------------------------------------------------------------- smooth families
def smooth_family(nargs, seed, positive=False):
    """a concrete smooth function of `nargs` reals and its exact partial derivatives (used when a
    replay needs an actual function where the symbolic run used an uninterpreted one)"""
    import math
    A = 0.3 + 0.1 * (seed % 5)
    B = [0.2 + 0.05 * ((seed + 3 * k) % 7) for k in range(nargs)]
    P = [0.4 * ((seed + k) % 4) for k in range(nargs)]
    C = 0.15 + 0.02 * (seed % 3)

    def core(*t):
        return A + sum(B[k] * math.sin(t[k] + P[k]) for k in range(nargs)) + C * math.prod(math.cos(0.5 * x) for x in t)

    def dcore(k):
        def g(*t):
            return B[k] * math.cos(t[k] + P[k]) - 0.5 * C * math.sin(0.5 * t[k]) * math.prod(math.cos(0.5 * x) for j, x in enumerate(t) if j != k)
        return g
    if not positive:
        return core, [dcore(k) for k in range(nargs)]

    def f(*t):
        return math.exp(core(*t))

    def df(k):
        dk = dcore(k)
        return lambda *t: math.exp(core(*t)) * dk(*t)
    return f, [df(k) for k in range(nargs)]


def smooth_ufunc(h, name, nargs, seed, positive=False):
    """uninterpreted smooth function `name` with partial-derivative symbols `name_d<k>`"""
    f, dfs = smooth_family(nargs, seed, positive)
    F = h.ufunc(name, nargs, family=[f])
    dF = [h.ufunc(f"{name}_d{k}", nargs, family=[dfs[k]]) for k in range(nargs)]
    return F, dF
