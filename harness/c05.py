"""C05 — likelihood classes are the normalised densities they are named after"""
import numpy as np

from symnp import funcs
from symnp.harness import unit

EXPLANATION = (
    "GaussianLikelihood / CauchyLikelihood / LogisticLikelihood (__init__, __call__, gradient, cost, "
    "cost_gradient) are executed on symbolic data y, uncertainties (>0), parameters theta and a forward "
    "model F(theta)=A.theta + b*theta_0^2 with symbolic A, b and its exact Jacobian (plus an uninterpreted "
    "smooth model with registered partial derivatives). Asserted per path: value == sum_i log pdf_i written "
    "from the textbook density (logistic with scale sigma*sqrt(3)/pi, i.e. variance sigma^2); gradient == "
    "symbolic derivative of the value w.r.t. every theta_j; cost == -value; cost_gradient == -gradient."
    " Call-sequence unit: evaluate, overwrite the caller's parameter array in place, evaluate value / gradient / cost / cost_gradient again (gradient before value at a new point): every result is the density at the parameter values of that call. Uncertainties as int arrays, int lists and float32 (dyadic values) give the same density."
)
BOUNDS = {"quick": "n<=2 data, p<=2 parameters", "thorough": "n<=3 data, p<=3 parameters; uninterpreted forward model n=2,p=2"}
ASSUMPTIONS = [
    "floats modelled as reals; irrational constants exact",
    "'normalised density' = textbook closed form of the named pdf (its integral is not re-derived)",
    "the supplied Jacobian is the true Jacobian of the forward model",
]


def _setup(h, cls, n, p, model_kind="poly"):
    import inference.likelihoods as lk
    C = {"gauss": lk.GaussianLikelihood, "cauchy": lk.CauchyLikelihood, "logistic": lk.LogisticLikelihood}[cls]
    h.covers(C.__init__, *[getattr(C, n) for n in ("_log_likelihood", "_log_likelihood_gradient") if hasattr(C, n)], lk.Likelihood.__init__, lk.Likelihood.__call__,
             lk.Likelihood.gradient, lk.Likelihood.cost, lk.Likelihood.cost_gradient)
    h.patch(lk, logaddexp=funcs.logaddexp)
    y = h.real("y", n)
    s = h.real("s", n, pos=True)
    th = h.real("t", p)
    if model_kind == "poly":
        A = h.real("A", (n, p))
        b = h.real("b", n)

        def model(t):
            return A @ t + b * t[0] ** 2

        def jac(t):
            J = A.copy()
            J[:, 0] = J[:, 0] + 2 * b * t[0]
            return J
    else:
        # arbitrary smooth forward model: F_i uninterpreted, Jacobian = its partial-derivative symbols
        fam = [[(lambda i, k: (lambda *t: np.sin(0.7 * (i + 1) * t[0] + k) + 0.3 * (i + 1) * sum(t[1:]) ** 2))(i, k) for k in range(1)][0]
               for i in range(n)]
        dfam = [[(lambda i, j: (lambda *t: (0.7 * (i + 1) * np.cos(0.7 * (i + 1) * t[0]) if j == 0 else 0.6 * (i + 1) * sum(t[1:]))))(i, j)
                 for j in range(p)] for i in range(n)]
        F = [h.ufunc(f"F{i}", p, family=[fam[i]]) for i in range(n)]
        dF = [[h.ufunc(f"F{i}_d{j}", p, family=[dfam[i][j]]) for j in range(p)] for i in range(n)]

        def model(t):
            return np.array([F[i](t) for i in range(n)], dtype=object if h.sym else float)

        def jac(t):
            return np.array([[dF[i][j](t) for j in range(p)] for i in range(n)], dtype=object if h.sym else float)
    L = C(y, s, model, jac)
    return lk, L, y, s, th, model


def _reference(h, cls, y, s, F):
    pi, sqrt3, log2pi = h.const("pi"), h.const("sqrt3"), h.const("log2pi")
    tot = 0
    for yi, si, fi in zip(y, s, F):
        if cls == "gauss":
            z = (yi - fi) / si
            tot = tot + (-0.5 * z * z - h.log(si) - 0.5 * log2pi)
        elif cls == "cauchy":
            z = (yi - fi) / si
            tot = tot - h.log(pi * si * (1 + z * z))
        else:
            sc = si * sqrt3 / pi  # logistic scale with variance sc^2 pi^2 / 3 = sigma^2
            z = (yi - fi) / sc
            tot = tot + (-z - 2 * h.log(1 + h.exp(-z)) - h.log(sc))
    return tot


CLS = ["gauss", "cauchy", "logistic"]
Q = [dict(cls=c, n=n, p=p) for c in CLS for (n, p) in [(1, 1), (2, 2)]]
T = [dict(cls=c, n=n, p=p) for c in CLS for (n, p) in [(3, 2), (2, 3), (3, 3)]]


@unit("C05", quick=Q, thorough=T)
def value_is_log_density(h, cls, n, p):
    lk, L, y, s, th, model = _setup(h, cls, n, p)
    h.eq("call==sum_log_pdf", L(th), _reference(h, cls, y, s, model(th)))
    h.eq("cost==-call", L.cost(th), -L(th))


@unit("C05", quick=Q, thorough=T)
def gradient_is_derivative(h, cls, n, p):
    lk, L, y, s, th, model = _setup(h, cls, n, p)
    g = L.gradient(th)
    h.is_gradient("gradient", lambda t: L(t), th, g)
    h.eq("cost_gradient==-gradient", L.cost_gradient(th), -g)


@unit("C05", quick=[], thorough=[dict(cls=c, n=2, p=2) for c in CLS], families=1)
def gradient_uninterpreted_model(h, cls, n, p):
    lk, L, y, s, th, model = _setup(h, cls, n, p, model_kind="uf")
    g = L.gradient(th)
    h.is_gradient("gradient", lambda t: L(t), th, g)
    h.eq("call==sum_log_pdf", L(th), _reference(h, cls, y, s, model(th)))


@unit("C05", quick=[dict(cls=c, form=f) for c in ("gauss", "cauchy") for f in ("int_array", "int_list", "float32")])
def uncertainties_of_any_numeric_type(h, cls, form):
    """uncertainties given as integers (array or list) or single precision (concrete values 1, 2, 4; symbolic data and
    parameters): differences of the log-likelihood between two parameter vectors must equal those of the named
    density with exactly these scales (the constant normalisation drops out, so no transcendental constant is
    evaluated in floating point on one side only), and the gradient must be the derivative"""
    import inference.likelihoods as lk
    C = {"gauss": lk.GaussianLikelihood, "cauchy": lk.CauchyLikelihood, "logistic": lk.LogisticLikelihood}[cls]
    h.patch(lk, logaddexp=funcs.logaddexp)
    n, p_ = 3, 2
    y = h.real("y", n)
    th = h.real("t", p_)
    th2 = h.real("t2", p_)
    A = h.real("A", (n, p_))
    vals = [1, 2, 4]  # dyadic: every float operation on them is exact, so real arithmetic models the doubles exactly
    sig = {"int_array": np.array(vals), "int_list": list(vals), "float32": np.array(vals, dtype=np.float32)}[form]
    L = C(y, sig, lambda t: A @ t, lambda t: A)
    sf = np.array(vals, dtype=float)
    if cls == "logistic":
        sf = sf * (np.sqrt(3) / np.pi)
    inv = 1.0 / sf

    def kernel(t):
        z = (y - A @ t) * inv
        if cls == "gauss":
            return sum(-0.5 * zi * zi for zi in z)
        if cls == "cauchy":
            return sum(-h.log(1 + zi * zi) for zi in z)
        return sum(-zi - 2 * h.log(1 + h.exp(-zi)) for zi in z)
    h.eq("log-likelihood difference between two parameter vectors", L(th) - L(th2), kernel(th) - kernel(th2))
    h.is_gradient("gradient", lambda t: L(t), th, L.gradient(th))


@unit("C05", quick=[dict(cls=c) for c in CLS])
def repeated_calls_depend_only_on_the_current_parameters(h, cls):
    """a call sequence on one likelihood object: evaluate, change the caller's parameter array in place, evaluate again,
    then evaluate gradient-before-value at a third point.  Every result must be the named density at the parameter values
    of *that* call (nothing remembered from an earlier call, nothing tied to the identity of the caller's array)"""
    n, p = 2, 2
    lk, L, y, s, th, model = _setup(h, cls, n, p)
    dt = object if h.sym else float
    t = np.array(th, dtype=dt)
    h.eq("first call", L(t), _reference(h, cls, y, s, model(t)))
    L.gradient(t)
    new = h.real("t_new", p)
    t[0] = new[0]
    h.eq("after changing the caller's array in place: value", L(t), _reference(h, cls, y, s, model(t)))
    h.is_gradient("after changing the caller's array in place: gradient", lambda q: _reference(h, cls, y, s, model(q)), t, L.gradient(t))
    h.eq("cost after the change", L.cost(t), -_reference(h, cls, y, s, model(t)))
    t[1] = new[1]
    g = L.cost_gradient(t)   # gradient requested before any value at this point
    h.is_gradient("cost_gradient first at a new point", lambda q: -_reference(h, cls, y, s, model(q)), t, g)
    h.eq("value at that point", L(t), _reference(h, cls, y, s, model(t)))
    h.eq("caller's array holds what the caller wrote", t, np.array([new[0], new[1]], dtype=dt))


@unit("C05", quick=[dict(cls=c, layout=l) for c in CLS for l in ("column", "row", "nested")], cost=2)
def data_layouts_give_the_same_density(h, cls, layout):
    """the data vector handed over as a column (n,1), a row (1,n) or a nested list [[...]] (all accepted by the constructor,
    which squeezes them): the value -- normalisation included -- and the gradient are those of the same data given as a plain
    vector"""
    import inference.likelihoods as lk
    C = {"gauss": lk.GaussianLikelihood, "cauchy": lk.CauchyLikelihood, "logistic": lk.LogisticLikelihood}[cls]
    h.patch(lk, logaddexp=funcs.logaddexp)
    n, p = 3, 2
    y = h.real("y", n)
    s = h.real("s", n, pos=True)
    th = h.real("t", p)
    A = h.real("A", (n, p))
    dt = object if h.sym else float
    shaped = {"column": lambda v: np.array(v, dtype=dt).reshape(n, 1), "row": lambda v: np.array(v, dtype=dt).reshape(1, n),
              "nested": lambda v: [list(v)]}[layout]
    h.allow(ValueError)
    L = C(shaped(y), shaped(s), lambda t: A @ t, lambda t: A)
    ref = _reference(h, cls, y, s, A @ th)
    h.eq(f"value with the data given as a {layout} == sum of log densities", L(th), ref)
    h.is_gradient("gradient", lambda t: _reference(h, cls, y, s, A @ t), th, L.gradient(th))
