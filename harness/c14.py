"""C14 — burn, thin and interval read-outs select exactly the documented samples"""
import numpy as np
import z3

from symnp import stubs
from symnp.core import R
from symnp.harness import unit
from harness import mcmc_common as mc

EXPLANATION = (
    "GibbsChain / HamiltonianChain / EnsembleSampler objects are placed directly in a state with n stored symbolic "
    "samples and log-probabilities (state construction, no stepping); burn, thin and the requested sample count are "
    "forked integers, the interval fraction is symbolic, numpy.random.permutation is an arbitrary (forked) "
    "permutation. get_parameter / get_sample / get_probabilities / get_marginal / get_interval are executed. Asserted: "
    "the read-outs return exactly rows burn, burn+thin, ... (term equality with the stored values), first dimension == "
    "number of retained samples (also for 0 or 1 rows), the three read-outs stay aligned row for row; get_marginal hands "
    "exactly those values to the density estimator; get_interval returns a 2-D array of stored rows paired with their own "
    "log-probabilities, every returned log-probability >= every discarded one, all rows of the requested top fraction when "
    "no count is given and at most the requested count otherwise."
    ' State-following unit: read-outs before and after replace_last and after the chain has grown always reflect the state at the time of the call.'
)
BOUNDS = {"quick": "chains of 1..4 stored points, d<=2, burn 0..5, thin 1..3, requested count 1..3",
          "thorough": "chains of 5 stored points, burn 0..6, requested count None or 2 (count 4 on 5 points exceeded 20000 paths and was dropped)"}
ASSUMPTIONS = ["burn / thin / count are enumerated (Python slicing needs concrete indices); the contents stay symbolic",
               "density-estimator constructors are replaced by recorders (what they compute is C12/C19)"]


def _chain(h, cls, n, d):
    ev = mc.Events()
    dt = object if h.sym else float
    rows = [h.real(f"row{k}", d) for k in range(n)]
    probs = [h.real(f"lp{k}") for k in range(n)]
    if cls == "gibbs":
        gb, chain, post, T, pts = mc.make_metropolis_like(h, "gibbs", d, ev, hist=1, temperature=False)
        for i, p in enumerate(chain.params):
            p.samples = [r[i] for r in rows]
        chain.probs = list(probs)
        chain.chain_length = n
        h.covers(gb.MetropolisChain.get_parameter, gb.MetropolisChain.get_sample, gb.MetropolisChain.get_probabilities)
    elif cls == "hmc":
        hmc, chain, post, grad, T, start, eps, im = mc.make_hmc(h, d, ev, temperature=False)
        chain.theta = [np.array(r, dtype=dt) for r in rows]
        chain.probs = list(probs)
        chain.chain_length = n
        h.covers(hmc.HamiltonianChain.get_parameter, hmc.HamiltonianChain.get_sample, hmc.HamiltonianChain.get_probabilities)
    else:
        en, chain, post, alpha, X = mc.make_ensemble(h, d, 3, ev)
        chain.sample = np.array(rows, dtype=dt).reshape(n, d)
        chain.sample_probs = np.array(probs, dtype=dt)
        chain.chain_length = n
        h.covers(en.EnsembleSampler.get_parameter, en.EnsembleSampler.get_sample, en.EnsembleSampler.get_probabilities)
    _injection_took_effect(h, cls, chain, rows)
    return chain, rows, probs


def _injection_took_effect(h, cls, chain, rows):
    """the units of this file place stored samples directly into the sampler.  If a re-organisation of the sampler keeps
    its history somewhere else, the read-outs under test would not see the injected rows and every check below would fail
    for a reason that has nothing to do with the property: a public accessor outside the read-outs under test (get_last)
    must already return the last injected row, otherwise the harness is out of date (inconclusive, never a violation)"""
    if cls == "ensemble" or not hasattr(chain, "get_last"):
        return
    last = np.asarray(chain.get_last()).ravel()
    want = np.asarray(rows[-1]).ravel()
    if h.sym:
        ok = len(last) == len(want) and all(R(a).eq(R(b)) for a, b in zip(last, want))
    else:
        ok = len(last) == len(want) and bool(np.all(np.asarray(last, dtype=float) == np.asarray(want, dtype=float)))
    if not ok:
        raise mc.HarnessOutOfDate("the sampler does not read its stored history from the attributes this harness fills in")


def _unchanged(h, chain, rows, probs, d, after):
    """read-outs must not disturb the stored chain: a later read-out still sees the original rows"""
    dt = object if h.sym else float
    n = len(rows)
    P = np.asarray(chain.get_probabilities(burn=0, thin=1))
    S = np.asarray(chain.get_sample(burn=0, thin=1))
    h.same(f"after {after}: stored length unchanged", (P.shape, S.shape), ((n,), (n, d)))
    if P.shape == (n,) and S.shape == (n, d):
        h.eq(f"after {after}: stored log-probabilities unchanged", P, np.array(probs, dtype=dt))
        h.eq(f"after {after}: stored samples unchanged", S, np.array(rows, dtype=dt).reshape(n, d))


CLS = ["gibbs", "hmc", "ensemble"]
Q = [dict(cls=c, n=n, d=d) for c in CLS for (n, d) in [(1, 1), (3, 2), (4, 1)]]
T = [dict(cls=c, n=5, d=2) for c in CLS]


@unit("C14", quick=Q, thorough=T, max_paths=3000, cost=3)
def readouts_return_documented_rows(h, cls, n, d):
    chain, rows, probs = _chain(h, cls, n, d)
    burn = h.choice_int("burn", 0, n + 1)
    thin = h.choice_int("thin", 1, 3)
    keep = list(range(burn, n, thin))
    dt = object if h.sym else float
    S = chain.get_sample(burn=burn, thin=thin)
    P = chain.get_probabilities(burn=burn, thin=thin)
    h.same("get_sample shape == (retained, n_parameters)", np.asarray(S).shape, (len(keep), d))
    h.same("get_probabilities shape == (retained,)", np.asarray(P).shape, (len(keep),))
    if keep:
        h.eq("get_sample rows == rows burn, burn+thin, ...", S, np.array([rows[k] for k in keep], dtype=dt))
        h.eq("get_probabilities == entries burn, burn+thin, ...", P, np.array([probs[k] for k in keep], dtype=dt))
    for i in range(d):
        G = chain.get_parameter(i, burn=burn, thin=thin)
        h.same(f"get_parameter({i}) first dimension == retained", np.asarray(G).shape, (len(keep),))
        if keep and np.asarray(G).shape == (len(keep),):
            h.eq(f"get_parameter({i}) == column {i} of the retained rows", G, np.array([rows[k][i] for k in keep], dtype=dt))
    _unchanged(h, chain, rows, probs, d, "the read-outs")


@unit("C14", quick=[dict(cls=c, n=4) for c in CLS], max_paths=2000)
def marginal_is_built_from_the_retained_values(h, cls, n):
    import inference.mcmc.base as base
    chain, rows, probs = _chain(h, cls, n, 2)
    h.covers(base.MarkovChain.get_marginal)
    got = []

    class Rec:
        def __init__(self, sample, *a, **k):
            got.append(np.asarray(sample))
    h.patch(base, both=True, GaussianKDE=Rec, UnimodalPdf=Rec)
    burn = h.choice_int("burn", 0, 2)
    thin = h.choice_int("thin", 1, 2)
    keep = list(range(burn, n, thin))
    dt = object if h.sym else float
    for uni in (False, True):
        del got[:]
        chain.get_marginal(1, burn=burn, thin=thin, unimodal=uni)
        h.same(f"estimator (unimodal={uni}) received one sample array of the retained length", [g.shape for g in got], [(len(keep),)])
        if got and got[0].shape == (len(keep),):
            h.eq(f"estimator (unimodal={uni}) received exactly the retained values", got[0], np.array([rows[k][1] for k in keep], dtype=dt))


def _pairs_ok(h, S, P, rows, probs, keep):
    """every returned (row, prob) is a stored (row_k, prob_k) of the retained chain, no index twice"""
    S, P = np.asarray(S), np.asarray(P)
    if h.sym:
        used_alts = []
        for r in range(len(P)):
            used_alts.append(z3.Or(*[z3.And(R(P[r]) == R(probs[k]), *[R(S[r, c]) == R(rows[k][c]) for c in range(S.shape[1])]) for k in keep]))
        return used_alts
    out = []
    for r in range(len(P)):
        out.append(any(P[r] == probs[k] and np.all(S[r] == np.asarray(rows[k])) for k in keep))
    return out


@unit("C14", quick=[dict(cls=c, n=n, count=cnt) for c in ("gibbs", "ensemble") for (n, cnt) in [(3, None), (4, None), (3, 1), (4, 2)]] +
      [dict(cls="hmc", n=3, count=None), dict(cls="hmc", n=4, count=2)],
      thorough=[dict(cls=c, n=5, count=cnt) for c in CLS for cnt in (None, 2)], max_paths=20000, cost=8)
def interval_returns_top_fraction(h, cls, n, count):
    import inference.mcmc.base as base
    d = 2
    chain, rows, probs = _chain(h, cls, n, d)
    h.covers(base.MarkovChain.get_interval)
    rng = stubs.SymRng(h, "perm")
    h.patch(base, both=True, permutation=rng.permutation)
    burn = h.choice_int("burn", 0, 1)
    thin = 1 if count is not None else h.choice_int("thin", 1, 2)
    frac = h.real("interval", lo=0, hi=1, lo_strict=True, hi_strict=True)
    S, P = chain.get_interval(interval=frac, burn=burn, thin=thin, samples=count)
    S, P = np.asarray(S), np.asarray(P)
    _unchanged(h, chain, rows, probs, d, "get_interval")
    size_after_burn = max(n - burn, 0)
    if count is not None:
        thin = max(size_after_burn // count, 1)
    keep = list(range(burn, n, thin))
    h.same("sample is two-dimensional", S.ndim, 2)
    if S.ndim != 2:
        return
    h.same("one log-probability per returned row", (P.ndim, len(P)), (1, S.shape[0]))
    h.same("rows have n_parameters entries", S.shape[1], d)
    ok = _pairs_ok(h, S, P, rows, probs, keep)
    h.true("every returned row is a retained stored row paired with its own log-probability", ok)
    # top fraction: size - int(size * (1 - interval)) rows survive the cut; everything returned dominates everything cut
    m = len(keep)
    if h.sym:
        from symnp.core import SymReal
        cut = SymReal(R(m * (1 - frac)))
    # number returned
    if count is None:
        # returned count k satisfies k == m - trunc(m (1 - interval))
        k = S.shape[0]
        h.true("returned count == size - int(size * (1 - interval))", (m - k <= m * (1 - frac)) & (m * (1 - frac) < m - k + 1))
    else:
        h.same("at most the requested number of rows", S.shape[0] <= count, True)
    # dominance: each returned log-probability >= each retained-but-not-returned one
    if h.sym:
        for r in range(len(P)):
            for kk in keep:
                not_returned = z3.And(*[z3.Or(R(P[q]) != R(probs[kk]), *[R(S[q, c]) != R(rows[kk][c]) for c in range(d)]) for q in range(len(P))])
                if count is None:
                    h.true(f"returned[{r}] >= discarded stored value {kk}", z3.Implies(not_returned, R(P[r]) >= R(probs[kk])))
    else:
        ret = [float(p) for p in P]
        if count is None and ret:
            others = [float(probs[kk]) for kk in keep if not any(float(P[q]) == float(probs[kk]) and np.all(S[q] == np.asarray(rows[kk])) for q in range(len(P)))]
            h.same("returned values dominate the discarded ones", all(min(ret) >= o for o in others), True)


@unit("C14", quick=[dict(cls=c, n=3, d=2) for c in ("gibbs", "hmc")], max_paths=500)
def readouts_follow_the_current_chain_state(h, cls, n, d):
    """read-outs taken before and after the last stored point is replaced (what a tempering swap does through
    replace_last) and after the chain has grown by one stored point: every read-out reflects the state at the
    time of the call, never an earlier one"""
    chain, rows, probs = _chain(h, cls, n, d)
    dt = object if h.sym else float
    _unchanged(h, chain, rows, probs, d, "construction")   # warms anything a read-out may keep
    for i in range(d):
        chain.get_parameter(i, burn=0, thin=1)
    new = h.real("new_last", d)
    chain.replace_last(np.array(new, dtype=dt))
    rows2 = rows[:-1] + [new]
    _unchanged(h, chain, rows2, probs, d, "replace_last")
    for i in range(d):
        h.eq(f"after replace_last: get_parameter({i})", chain.get_parameter(i, burn=0, thin=1), np.array([r[i] for r in rows2], dtype=dt))
    # growth by one stored point, written the way the samplers store it
    extra, lp = h.real("extra", d), h.real("extra_lp")
    if cls == "gibbs":
        for i, p in enumerate(chain.params):
            p.samples.append(extra[i])
    else:
        chain.theta.append(np.array(extra, dtype=dt))
    chain.probs.append(lp)
    chain.chain_length += 1
    rows3, probs3 = rows2 + [extra], probs + [lp]
    _unchanged(h, chain, rows3, probs3, d, "one more stored point")
    chain.replace_last(np.array(new, dtype=dt))
    _unchanged(h, chain, rows2 + [new], probs3, d, "one more stored point and replace_last")
