"""C10 — covariance and mean functions are valid and their gradients are exact"""
import numpy as np
import z3

from symnp.harness import unit
from harness import gp_common as gc

EXPLANATION = (
    "SquaredExponential, RationalQuadratic, WhiteNoise, HeteroscedasticNoise, CompositeCovariance (sums) and "
    "ChangePoint (2 and 3 kernels, nested in and around sums) and ConstantMean / LinearMean / QuadraticMean are "
    "executed (pass_spatial_data, __call__, build_covariance, covariance_and_gradients, build_mean, "
    "mean_and_gradients, labels) on symbolic points and hyper-parameters. Asserted: K(u,v) == K(v,u)^T; for 2 "
    "points K is positive semi-definite (diagonal >= 0, det >= 0); build_covariance == textbook pairwise formula "
    "+ documented diagonal terms (jitter 1e-12 a^2, sigma^2, sigma_i^2); __call__ == textbook formula; every "
    "matrix of covariance_and_gradients == symbolic derivative of build_covariance w.r.t. the matching "
    "hyper-parameter, its value part == build_covariance; composites == (weighted) sums of components with theta "
    "sliced in order and labels concatenated in order; mean functions likewise."
)
BOUNDS = {"quick": "n=2 points, d<=2; kernels SE, RQ, WN, HN, SE+WN, SE+RQ, CP(SE,SE), CP(SE,SE,SE) [d=1]",
          "thorough": "n<=3 points, d<=2; adds SE+SE+WN, CP(SE,RQ), CP(SE,SE+WN), CP(SE,SE)+WN, CP(SE,SE,SE,SE); PSD only for n=2"}
ASSUMPTIONS = [
    "floats as reals", "change-point widths > 0",
    "positive semi-definiteness for n >= 3 points is outside reach (harmonic analysis, not polynomial algebra): not claimed",
    "PSD of change-point combinations (n=2) rests on the trusted closure lemma (sums and rank-one Hadamard weights of PSD matrices are PSD) plus the checked component PSD and weighted-sum identities",
]

SPECS_Q = {"SE": "SE", "RQ": "RQ", "WN": "WN", "HN": "HN", "SE+WN": ("sum", ["SE", "WN"]), "SE+RQ": ("sum", ["SE", "RQ"]),
           "WN+SE": ("sum", ["WN", "SE"]), "SE+WN+RQ": ("sum", ["SE", "WN", "RQ"]),
           "CP2": ("cp", ["SE", "SE"]), "CP3": ("cp", ["SE", "SE", "SE"])}
SPECS_T = dict(SPECS_Q, **{"SE+SE+WN": ("sum", ["SE", "SE", "WN"]), "CP(SE,RQ)": ("cp", ["SE", "RQ"]),
                           "CP(SE,SE+WN)": ("cp", ["SE", ("sum", ["SE", "WN"])]), "CP2+WN": ("sum", [("cp", ["SE", "SE"]), "WN"]),
                           "CP4": ("cp", ["SE", "SE", "SE", "SE"])})


def _setup(h, key, n, d):
    cv, mn = gc.patch_cov(h)
    spec = SPECS_T[key]
    K = gc.build_kernel(cv, spec)
    X = h.real("x", (n, d))
    K.pass_spatial_data(X)
    th = gc.theta_for(h, spec, n, d)
    for cls in (cv.SquaredExponential, cv.RationalQuadratic, cv.WhiteNoise, cv.HeteroscedasticNoise, cv.CompositeCovariance, cv.ChangePoint):
        h.covers(cls.pass_spatial_data, cls.__call__, cls.build_covariance, cls.covariance_and_gradients)
    h.covers(cv.ChangePoint.logistic, cv.ChangePoint.logistic_and_gradient, cv.slice_builder)
    return cv, spec, K, X, th


Q1 = [dict(key=k, n=2, d=1) for k in SPECS_Q] + [dict(key=k, n=2, d=2) for k in ("SE", "RQ", "SE+WN")]
T1 = [dict(key=k, n=2, d=1) for k in SPECS_T if k not in SPECS_Q] + [dict(key=k, n=3, d=1) for k in ("SE", "RQ", "SE+WN", "CP2", "CP3")] + \
     [dict(key=k, n=3, d=2) for k in ("SE", "RQ")] + [dict(key=k, n=2, d=2) for k in ("CP2", "SE+RQ", "HN")]


@unit("C10", quick=Q1, thorough=T1, cost=3)
def value_matches_textbook(h, key, n, d):
    cv, spec, K, X, th = _setup(h, key, n, d)
    h.same("n_params", K.n_params, gc.n_params(spec, n, d))
    h.same("labels concatenated in order", list(K.hyperpar_labels), gc.labels(spec, n, d))
    B = K.build_covariance(th)
    h.eq("build_covariance == pairwise formula + documented diagonal", B, gc.ref_call(h, spec, X, X, th, same_points=True))
    U = h.real("u", (2, d))
    V = h.real("v", (1, d))
    if "HN" not in key:
        C = K(U, V, th)
        h.eq("__call__ == textbook formula", C, gc.ref_call(h, spec, U, V, th))
        h.eq("K(u,v) == K(v,u)^T", C, K(V, U, th).T)
    else:
        h.eq("noise kernel: zero cross-covariance", K(U, V, th), np.zeros((2, 1)))


@unit("C10", quick=Q1, thorough=T1, cost=5)
def gradients_are_partial_derivatives(h, key, n, d):
    cv, spec, K, X, th = _setup(h, key, n, d)
    Kv, grads = K.covariance_and_gradients(th)
    h.eq("value part == build_covariance", Kv, K.build_covariance(th))
    h.same("one gradient matrix per hyper-parameter", len(grads), len(th))
    J = h.jacobian(lambda t: np.asarray(K.build_covariance(t)).ravel(), th)
    for j in range(len(th)):
        h.eq(f"dK/dtheta[{j}]", np.asarray(grads[j]).ravel(), J[:, j], tol=2e-5)


# change-point combinations: PSD follows from the component kernels being PSD (below), the value being the
# textbook weighted sum with rank-one weights c_t(u) c_t(v) (value_matches_textbook) and the closure of PSD
# matrices under sums and Hadamard products with rank-one PSD matrices (trusted lemma); the direct 2x2
# determinant inequality for change-points is beyond nlsat within the budget (unknown at 20 s / 300 s).
@unit("C10", quick=[dict(key=k, d=1) for k in ("SE", "RQ", "SE+WN", "SE+RQ")] + [dict(key="SE", d=2)],
      thorough=[dict(key=k, d=1) for k in ("SE+SE+WN", "WN", "HN")] + [dict(key="RQ", d=2)], cost=3)
def two_point_matrix_is_psd(h, key, d):
    cv, spec, K, X, th = _setup(h, key, 2, d)
    for name, M in (("build_covariance", K.build_covariance(th)), ("__call__(x,x)", K(X, X, th))):
        h.eq(f"{name} symmetric", M, M.T)
        h.ge(f"{name} diagonal >= 0", np.array([M[0, 0], M[1, 1]]), 0.0)
        h.ge(f"{name} det >= 0", M[0, 0] * M[1, 1] - M[0, 1] * M[1, 0], 0.0, tol=1e-9)


@unit("C10", quick=[dict(spec=s, n=2, d=dd) for s in ("const", "lin", "quad") for dd in (1, 2)],
      thorough=[dict(spec=s, n=3, d=2) for s in ("const", "lin", "quad")])
def mean_functions(h, spec, n, d):
    cv, mn = gc.patch_cov(h)
    M = gc.build_mean(mn, spec)
    h.covers(type(M).pass_spatial_data, type(M).__call__, type(M).build_mean, type(M).mean_and_gradients)
    X = h.real("x", (n, d))
    M.pass_spatial_data(X)
    p = gc.mean_n_params(spec, d)
    h.same("n_params", M.n_params, p)
    h.same("labels", len(M.hyperpar_labels), p)
    th = h.real("th", p)
    bm = M.build_mean(th)
    h.eq("build_mean == [mean(x_i)]", bm, np.array([gc.ref_mean(h, spec, X, X[i], th) for i in range(n)], dtype=object if h.sym else float))
    q = h.real("q", d)
    h.eq("__call__ == textbook mean", M(q, th), gc.ref_mean(h, spec, X, q, th))
    h.eq("__call__ on a (1,d) point", M(q[None, :], th), gc.ref_mean(h, spec, X, q, th))
    mv, grads = M.mean_and_gradients(th)
    h.eq("value part == build_mean", mv, bm)
    h.same("one gradient vector per hyper-parameter", len(grads), p)
    J = h.jacobian(lambda t: np.asarray(M.build_mean(t)).ravel(), th)
    for j in range(p):
        h.eq(f"dmean/dtheta[{j}]", np.asarray(grads[j]).ravel(), J[:, j], tol=2e-5)
    # a second data set on the same object, other hyper-parameters, then the first data set again
    dt = object if h.sym else float
    X2 = h.real("x2", (n, d))
    th2 = h.real("th2", p)
    M.pass_spatial_data(X2)
    mv2, grads2 = M.mean_and_gradients(th2)
    h.eq("second data set: value", mv2, np.array([gc.ref_mean(h, spec, X2, X2[i], th2) for i in range(n)], dtype=dt))
    J2 = h.jacobian(lambda t: np.array([gc.ref_mean(h, spec, X2, X2[i], t) for i in range(n)], dtype=dt), th2)
    for j in range(p):
        h.eq(f"second data set: dmean/dtheta[{j}]", np.asarray(grads2[j]).ravel(), J2[:, j], tol=2e-5)
    M.pass_spatial_data(X)
    h.eq("first data set again: build_mean", M.build_mean(th), np.array([gc.ref_mean(h, spec, X, X[i], th) for i in range(n)], dtype=dt))


@unit("C10", quick=[dict(key=k, n=2, d=1) for k in ("SE", "RQ", "SE+WN", "CP2")] + [dict(key="SE", n=2, d=2)], thorough=[dict(key=k, n=2, d=1) for k in ("CP3", "HN", "SE+RQ")], cost=4)
def repeated_calls_depend_only_on_the_current_hyperparameters(h, key, n, d):
    """a call sequence on one kernel object: matrix and gradients at theta, the caller overwrites the same array in place,
    matrix / gradients / cross-covariance again, then a second data set is passed and the first one again.  Every result
    must be the textbook value for the hyper-parameters and the data current at the time of the call, and the caller's
    arrays keep the values the caller wrote"""
    cv, spec, K, X, th = _setup(h, key, n, d)
    dt = object if h.sym else float
    X0 = np.array(X, dtype=dt).copy()
    t = np.array(th, dtype=dt)
    K.build_covariance(t)
    K.covariance_and_gradients(t)
    new = gc.theta_for(h, spec, n, d, name="th_new")
    for k in range(len(t)):
        t[k] = new[k]
    h.eq("after overwriting theta in place: build_covariance", K.build_covariance(t), gc.ref_call(h, spec, X, X, new, same_points=True))
    Kv, grads = K.covariance_and_gradients(t)
    h.eq("after overwriting theta in place: value part of covariance_and_gradients", Kv, gc.ref_call(h, spec, X, X, new, same_points=True))
    # (the matrix itself was just pinned to the textbook value; its derivative is taken through the same entry point)
    J = h.jacobian(lambda q: np.asarray(K.build_covariance(q)).ravel(), np.array(new, dtype=dt))
    for j in range(len(t)):
        h.eq(f"after overwriting theta in place: dK/dtheta[{j}]", np.asarray(grads[j]).ravel(), J[:, j], tol=2e-5)
    h.eq("caller's hyper-parameter array holds what the caller wrote", t, np.array(new, dtype=dt))
    if "HN" not in key:
        U = h.real("u", (1, d))
        h.eq("cross-covariance with the current hyper-parameters", K(U, X, t), gc.ref_call(h, spec, U, X, new))
        X2 = h.real("x2", (n, d))
        K.pass_spatial_data(X2)
        h.eq("second data set: build_covariance", K.build_covariance(t), gc.ref_call(h, spec, X2, X2, new, same_points=True))
        K.pass_spatial_data(X)
        h.eq("first data set again: build_covariance", K.build_covariance(t), gc.ref_call(h, spec, X, X, new, same_points=True))
        h.eq("caller's data array unchanged", X, X0)


@unit("C10", quick=[dict(key=k, n=2, d=1) for k in ("SE+WN", "SE+RQ", "CP2", "CP3")] + [dict(key="SE+RQ", n=2, d=2)],
      thorough=[dict(key=k, n=3, d=1) for k in ("SE+SE+WN", "CP(SE,RQ)", "CP4")], max_paths=3000, cost=4)
def composite_bounds_are_component_bounds_in_order(h, key, n, d):
    """estimate_hyperpar_bounds on a sum / change-point combination: the composite's bounds are the bounds each component
    estimates on its own from the same data, concatenated in component order (change-points: followed by one
    (location, width) pair of bounds per change-point, locations within the data range, widths positive), one pair of
    bounds per hyper-parameter, lower <= upper"""
    cv, spec, K, X, th = _setup(h, key, n, d)
    y = h.real("y", n)
    for a, b in zip(y[:-1], y[1:]):
        h.assume(a < b, "distinct data values (the estimated bounds take logs of their spread)")
    for i in range(n - 1):
        for k in range(d):
            h.assume(X[i, k] < X[i + 1, k], "distinct coordinates in ascending order in every dimension")
    dt = object if h.sym else float
    K.estimate_hyperpar_bounds(np.array(y, dtype=dt))
    kind, parts = spec
    expect = []
    for p in parts:
        C = gc.build_kernel(cv, p)
        C.pass_spatial_data(X)
        C.estimate_hyperpar_bounds(np.array(y, dtype=dt))
        expect.extend(list(C.bounds))
    got = list(K.bounds)
    h.same("one (lower, upper) pair per hyper-parameter", len(got), K.n_params)
    m = len(expect)
    h.eq("component bounds concatenated in component order", np.array([[b[0], b[1]] for b in got[:m]], dtype=dt), np.array([[b[0], b[1]] for b in expect], dtype=dt))
    if kind == "cp":
        rest = got[m:]
        h.same("one (location, width) pair of bounds per change-point", len(rest), 2 * (len(parts) - 1))
        xs = X[:, 0]
        for i in range(0, len(rest), 2):
            loc, wid = rest[i], rest[i + 1]
            h.ge(f"change-point {i // 2}: location bounds inside the data range (lower)", loc[0], xs[0])
            h.le(f"change-point {i // 2}: location bounds inside the data range (upper)", loc[1], xs[-1])
            h.ge(f"change-point {i // 2}: width bounds positive", wid[0], 0.0, strict=True)
            h.le(f"change-point {i // 2}: width bounds ordered", wid[0], wid[1])
    for k, b in enumerate(got):
        h.le(f"bounds[{k}]: lower <= upper", b[0], b[1])


@unit("C10", quick=[dict(d=1)], thorough=[dict(d=2)], cost=3)
def sums_leave_their_operands_unchanged(h, d):
    """kernel objects combined more than once: base = SE + WN is extended in two different ways (base + RQ, base + SE) and
    added to itself.  Every sum has exactly its own components in order (parameter count, labels, value), and the operands
    -- base included -- are what they were before being used in a sum"""
    cv, mn = gc.patch_cov(h)
    n = 2
    X = h.real("x", (n, d))
    se, wn, rq, se2 = cv.SquaredExponential(), cv.WhiteNoise(), cv.RationalQuadratic(), cv.SquaredExponential()
    base = se + wn
    a = base + rq
    b = base + se2
    c = rq + base
    dbl = base + base
    specs = {"base": ("sum", ["SE", "WN"]), "base + RQ": ("sum", ["SE", "WN", "RQ"]), "base + SE": ("sum", ["SE", "WN", "SE"]),
             "RQ + base": ("sum", ["RQ", "SE", "WN"]), "base + base": ("sum", ["SE", "WN", "SE", "WN"])}
    for name, K in (("base", base), ("base + RQ", a), ("base + SE", b), ("RQ + base", c), ("base + base", dbl)):
        spec = specs[name]
        K.pass_spatial_data(X)
        h.same(f"{name}: number of hyper-parameters", K.n_params, gc.n_params(spec, n, d))
        h.same(f"{name}: labels", list(K.hyperpar_labels), gc.labels(spec, n, d))
        if K.n_params == gc.n_params(spec, n, d):
            th = gc.theta_for(h, spec, n, d, name="th_" + name.replace(" ", ""))
            h.eq(f"{name}: build_covariance == sum of its own components", K.build_covariance(th), gc.ref_call(h, spec, X, X, th, same_points=True))
    for name, K, p in (("SE", se, d + 1), ("WN", wn, 1), ("RQ", rq, d + 2)):
        K.pass_spatial_data(X)
        h.same(f"leaf {name} still has its own parameter count", K.n_params, p)
