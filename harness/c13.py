"""C13 — sample_hdi returns the shortest interval holding the requested fraction"""
import numpy as np
import z3

from symnp.core import ozeros, R
from symnp.harness import unit

EXPLANATION = (
    "inference.pdf.hdi.sample_hdi is executed on symbolic sample values (ties allowed) and a symbolic fraction in "
    "(0,1); int(fraction*n) forks over the window length, the in-place sort and argmin fork over orderings. Asserted "
    "per path: both end points are sample values; at least fraction*n sample points lie inside; no interval between "
    "two sample values holding at least as many points is shorter; a 2-D input gives column-wise the 1-D result; "
    "the result is invariant under generators of the permutation group (swap, rotation) and covariant under "
    "x -> a*x+b (a>0); the caller's array / list still holds its original values in the original order."
)
BOUNDS = {"quick": "n = 2..4 sample points (1-D), 2 points x 2 columns", "thorough": "n = 5 (1-D), 3 points x 2 columns"}
ASSUMPTIONS = ["floats modelled as reals (ties are exact equalities)", "object-dtype sort/argmin implement the same ordering semantics as float arrays"]


def _hdi(h):
    import inference.pdf.hdi as hd
    h.patch(hd, zeros=ozeros)
    h.covers(hd.sample_hdi)
    return hd.sample_hdi


def _count(h, s, lo, hi):
    if h.sym:
        from symnp.core import SymReal
        return SymReal(z3.Sum([z3.If(z3.And(R(v) >= R(lo), R(v) <= R(hi)), z3.RealVal(1), z3.RealVal(0)) for v in s]))
    return float(np.sum((np.asarray(s) >= lo) & (np.asarray(s) <= hi)))


def _is_member(h, v, s):
    if h.sym:
        from symnp.core import SymBool
        return SymBool(z3.Or(*[R(v) == R(x) for x in s]))
    return bool(np.any(np.asarray(s) == v))


def _optimality(h, s, f, lo, hi, tag=""):
    n = len(s)
    h.true(f"{tag}lower end is a sample value", _is_member(h, lo, s))
    h.true(f"{tag}upper end is a sample value", _is_member(h, hi, s))
    c0 = _count(h, s, lo, hi)
    h.ge(f"{tag}holds >= fraction*n points", c0, f * n)
    for j in range(n):
        for k in range(n):
            if j == k:
                continue
            a, b = s[j], s[k]
            cjk = _count(h, s, a, b)
            applies = (a <= b) & (cjk >= c0)
            h.ge(f"{tag}no shorter interval [{j},{k}]", h.ite(applies, b - a, hi - lo), hi - lo)


@unit("C13", quick=[dict(n=2), dict(n=3), dict(n=4)], thorough=[dict(n=5)], max_paths=6000, cost=5)
def hdi_is_shortest_interval(h, n):
    hdi = _hdi(h)
    s = h.real("s", n)
    f = h.real("f", lo=0, hi=1, lo_strict=True, hi_strict=True)
    orig = s.copy()
    out = hdi(s, f)
    h.same("result shape", np.asarray(out).shape, (2,))
    _optimality(h, orig, f, out[0], out[1])
    h.eq("caller's array unchanged", s, orig)


@unit("C13", quick=[dict(n=3)], thorough=[dict(n=4)], max_paths=6000, cost=5)
def hdi_list_input_and_unchanged(h, n):
    hdi = _hdi(h)
    s = h.real("s", n)
    f = h.real("f", lo=0, hi=1, lo_strict=True, hi_strict=True)
    lst = list(s)
    out = hdi(lst, f)
    out2 = hdi(s.copy(), f)
    h.eq("list input == array input", out, out2)
    h.eq("caller's list unchanged", np.array(lst, dtype=object if h.sym else float), s)


@unit("C13", quick=[dict(n=2)], thorough=[dict(n=3)], max_paths=20000, cost=9)
def hdi_columns_independent(h, n):
    hdi = _hdi(h)
    s = h.real("s", (n, 2))
    f = h.real("f", lo=0, hi=1, lo_strict=True, hi_strict=True)
    orig = s.copy()
    out = hdi(s, f)
    h.same("result shape", np.asarray(out).shape, (2, 2))
    for j in range(2):
        h.eq(f"column {j} == 1-D call", out[:, j], hdi(orig[:, j].copy(), f))
    h.eq("caller's array unchanged", s, orig)


@unit("C13", quick=[dict(n=3, g="swap"), dict(n=3, g="rot")], thorough=[dict(n=4, g="swap"), dict(n=4, g="rot")], max_paths=20000, cost=9)
def hdi_permutation_invariant(h, n, g):
    hdi = _hdi(h)
    s = h.real("s", n)
    f = h.real("f", lo=0, hi=1, lo_strict=True, hi_strict=True)
    idx = list(range(n))
    idx = [1, 0] + idx[2:] if g == "swap" else idx[1:] + idx[:1]
    h.eq("invariant under reordering", hdi(s[idx].copy(), f), hdi(s.copy(), f))


@unit("C13", quick=[dict(n=3)], thorough=[dict(n=4)], max_paths=20000, cost=9)
def hdi_affine_covariant(h, n):
    hdi = _hdi(h)
    s = h.real("s", n)
    f = h.real("f", lo=0, hi=1, lo_strict=True, hi_strict=True)
    a = h.real("a", pos=True)
    b = h.real("b")
    h.eq("hdi(a*s+b) == a*hdi(s)+b", hdi(a * s + b, f), a * hdi(s.copy(), f) + b)
