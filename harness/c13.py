"""C13 — sample_hdi returns the shortest interval holding the requested fraction"""
import numpy as np
import z3

from symnp.core import ozeros, R
from symnp.harness import unit

EXPLANATION = (
    "inference.pdf.hdi.sample_hdi is executed on symbolic sample values (ties allowed) and a symbolic fraction in "
    "(0,1); int(fraction*n) forks over the window length, the in-place sort and argmin fork over orderings. Asserted "
    "per path: both end points are sample values; at least fraction*n sample points lie inside; no interval between "
    "two sample values holding at least as many points is shorter; a 2-D input gives column-wise the 1-D result; "
    "the result is invariant under generators of the permutation group (swap, rotation) and covariant under "
    "x -> a*x+b (a>0); the caller's array / list still holds its original values in the original order."
    ' 2-D inputs are handed over in C order, Fortran order, as a transposed view and as a strided slice. IEEE unit: the same code on z3 FloatingPoint doubles (round to nearest even) with the end points asserted to be sample members and the coverage count asserted exactly.'
)
BOUNDS = {"quick": "n = 2..4 sample points (1-D), 2 points x 2 columns", "thorough": "n = 5 (1-D), 3 points x 2 columns"}
ASSUMPTIONS = ["floats modelled as reals (ties are exact equalities)", "object-dtype sort/argmin implement the same ordering semantics as float arrays"]


def _hdi(h):
    import inference.pdf.hdi as hd
    h.patch(hd, zeros=ozeros)
    h.covers(hd.sample_hdi)
    return hd.sample_hdi


def _count(h, s, lo, hi):
    if h.sym:
        from symnp.core import SymReal
        return SymReal(z3.Sum([z3.If(z3.And(R(v) >= R(lo), R(v) <= R(hi)), z3.RealVal(1), z3.RealVal(0)) for v in s]))
    return float(np.sum((np.asarray(s) >= lo) & (np.asarray(s) <= hi)))


def _is_member(h, v, s):
    if h.sym:
        from symnp.core import SymBool
        return SymBool(z3.Or(*[R(v) == R(x) for x in s]))
    return bool(np.any(np.asarray(s) == v))


def _optimality(h, s, f, lo, hi, tag=""):
    n = len(s)
    h.true(f"{tag}lower end is a sample value", _is_member(h, lo, s))
    h.true(f"{tag}upper end is a sample value", _is_member(h, hi, s))
    c0 = _count(h, s, lo, hi)
    h.ge(f"{tag}holds >= fraction*n points", c0, f * n)
    for j in range(n):
        for k in range(n):
            if j == k:
                continue
            a, b = s[j], s[k]
            cjk = _count(h, s, a, b)
            applies = (a <= b) & (cjk >= c0)
            h.ge(f"{tag}no shorter interval [{j},{k}]", h.ite(applies, b - a, hi - lo), hi - lo)


@unit("C13", quick=[dict(n=2), dict(n=3), dict(n=4)], thorough=[dict(n=5)], max_paths=6000, cost=5)
def hdi_is_shortest_interval(h, n):
    hdi = _hdi(h)
    s = h.real("s", n)
    f = h.real("f", lo=0, hi=1, lo_strict=True, hi_strict=True)
    orig = s.copy()
    out = hdi(s, f)
    h.same("result shape", np.asarray(out).shape, (2,))
    _optimality(h, orig, f, out[0], out[1])
    h.eq("caller's array unchanged", s, orig)


@unit("C13", quick=[dict(n=3)], thorough=[dict(n=4)], max_paths=6000, cost=5)
def hdi_list_input_and_unchanged(h, n):
    hdi = _hdi(h)
    s = h.real("s", n)
    f = h.real("f", lo=0, hi=1, lo_strict=True, hi_strict=True)
    lst = list(s)
    out = hdi(lst, f)
    out2 = hdi(s.copy(), f)
    h.eq("list input == array input", out, out2)
    h.eq("caller's list unchanged", np.array(lst, dtype=object if h.sym else float), s)
    h.eq("tuple input == array input", hdi(tuple(s), f), out2)
    if n >= 2:
        nested = [[v, w] for v, w in zip(s, s[::-1])]   # 2-D input as a list of rows
        o2 = np.asarray(hdi(nested, f))
        h.same("nested list: one interval per column", o2.shape, (2, 2))
        h.eq("nested list, column 0 == 1-D call", o2[:, 0], out2)
        h.eq("nested list, column 1 == 1-D call on the reversed sample", o2[:, 1], hdi(s[::-1].copy(), f))
        h.eq("caller's nested list unchanged", np.array(nested, dtype=object if h.sym else float), np.array([[v, w] for v, w in zip(s, s[::-1])], dtype=object if h.sym else float))


@unit("C13", quick=[dict(n=2), dict(n=2, layout="F"), dict(n=2, layout="T"), dict(n=2, layout="strided")], thorough=[dict(n=3), dict(n=3, layout="F")],
      max_paths=20000, cost=9)
def hdi_columns_independent(h, n, layout="C"):
    """2-D input in every memory layout a caller can hand over: C-ordered, Fortran-ordered, a transposed view of an
    (n_columns, n_samples) array, a strided slice of a wider array"""
    hdi = _hdi(h)
    vals = h.real("s", (n, 2))
    dt = object if h.sym else float
    if layout == "C":
        s = np.array(vals, dtype=dt, order="C")
    elif layout == "F":
        s = np.array(vals, dtype=dt, order="F")
    elif layout == "T":
        base = np.array(vals.T, dtype=dt, order="C")
        s = base.T
    else:
        base = np.empty((n, 4), dtype=dt)
        base[:, ::2] = vals
        base[:, 1::2] = 0.0
        s = base[:, ::2]
    f = h.real("f", lo=0, hi=1, lo_strict=True, hi_strict=True)
    orig = np.array(vals, dtype=dt)
    out = hdi(s, f)
    h.same("result shape", np.asarray(out).shape, (2, 2))
    for j in range(2):
        h.eq(f"column {j} == 1-D call", out[:, j], hdi(orig[:, j].copy(), f))
    h.eq("caller's array unchanged", s, orig)
    if layout in ("T", "strided"):
        h.eq("the array the caller's view belongs to is unchanged", base.T if layout == "T" else base[:, ::2], orig)


@unit("C13", quick=[dict(n=3, g="swap"), dict(n=3, g="rot")], thorough=[dict(n=4, g="swap"), dict(n=4, g="rot")], max_paths=20000, cost=9)
def hdi_permutation_invariant(h, n, g):
    hdi = _hdi(h)
    s = h.real("s", n)
    f = h.real("f", lo=0, hi=1, lo_strict=True, hi_strict=True)
    idx = list(range(n))
    idx = [1, 0] + idx[2:] if g == "swap" else idx[1:] + idx[:1]
    h.eq("invariant under reordering", hdi(s[idx].copy(), f), hdi(s.copy(), f))


@unit("C13", quick=[dict(n=3)], thorough=[dict(n=4)], max_paths=20000, cost=9)
def hdi_affine_covariant(h, n):
    hdi = _hdi(h)
    s = h.real("s", n)
    f = h.real("f", lo=0, hi=1, lo_strict=True, hi_strict=True)
    a = h.real("a", pos=True)
    b = h.real("b")
    h.eq("hdi(a*s+b) == a*hdi(s)+b", hdi(a * s + b, f), a * hdi(s.copy(), f) + b)


@unit("C13", quick=[dict(n=3, frac=0.5), dict(n=4, frac=0.3, presorted=True)],
      thorough=[dict(n=4, frac=0.5, presorted=True), dict(n=4, frac=0.3), dict(n=5, frac=0.7, presorted=True)],
      max_paths=4000, cost=4, timeout_ms=60000)
def end_points_are_sample_values_in_ieee_arithmetic(h, n, frac, presorted=False):
    """the same real code on IEEE-754 doubles (z3 FloatingPoint terms, round-to-nearest-even; symnp.fp): every arithmetic
    step rounds as the hardware does, so 'the reported end points are sample values' and 'at least the requested fraction
    lies inside' are decided as exact statements about doubles (any finite doubles, ties, signed zeros; the fraction is
    concrete because it only selects the window length)"""
    from symnp import fp
    from symnp.core import SymBool
    hdi = _hdi(h)
    s = h.fp("s", n)
    orig = list(s)
    if presorted:
        # the sort only compares (exact in IEEE arithmetic; reordering is the subject of hdi_permutation_invariant), so the
        # larger instances take the sample in ascending order and spend the budget on the rounded arithmetic behind it
        for a, b in zip(orig[:-1], orig[1:]):
            h.assume(a <= b, "sample given in ascending order")
    out = np.asarray(hdi(s.copy(), frac))
    h.same("two end points", out.shape, (2,))
    lo, hi = out[0], out[1]

    def member(v):
        if h.sym:
            return SymBool(z3.Or(*[z3.fpEQ(fp.fpv(v), fp.fpv(x)) for x in orig]))
        return bool(any(float(v) == float(x) for x in orig))
    h.true("lower end point is one of the sample's doubles", member(lo))
    h.true("upper end point is one of the sample's doubles", member(hi))
    need = int(frac * n)
    if h.sym:
        inside = [z3.And(z3.fpLEQ(fp.fpv(lo), fp.fpv(x)), z3.fpLEQ(fp.fpv(x), fp.fpv(hi))) for x in orig]
        cnt = z3.Sum([z3.If(c, 1, 0) for c in inside])
        h.true("at least int(fraction*n)+1 sample points inside", SymBool(cnt >= need + 1))
    else:
        h.true("at least int(fraction*n)+1 sample points inside", sum(1 for x in orig if float(lo) <= float(x) <= float(hi)) >= need + 1)
