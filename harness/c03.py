"""C03 — stored log-probabilities always belong to the stored samples"""
import numpy as np
import z3

from symnp import stubs
from symnp.core import R, SymBool
from symnp.harness import unit
from harness import mcmc_common as mc

EXPLANATION = (
    "Inductive proof of the representation invariant I: len(samples) == len(log-probabilities) == chain_length and "
    "log-probability[k] == L(sample_k)/T for every k (ensemble: walker_probs[i] == L(walker_i), sample_probs rows == "
    "L(sample rows)). Base: the real constructors run on a symbolic start. Step: a chain whose stored history is two "
    "arbitrary symbolic points satisfying I executes the real take_step / advance(1) with an uninterpreted log-density, "
    "symbolic temperature and every random draw symbolic; I is asserted afterwards together with 'earlier entries "
    "untouched'. mode() on <=3 stored points returns a stored sample whose stored value is >= every stored value. Two "
    "samplers built from the same input arrays: stepping one leaves the other's state and the caller's arrays unchanged."
)
BOUNDS = {"quick": "dimension <=2, <=2 retries per coordinate, history of 2 stored points, 3 walkers", "thorough": "dimension 3 (Gibbs), 3 retries, 4 walkers"}
ASSUMPTIONS = [
    "one inductive step from an arbitrary state satisfying I covers histories of any length",
    "exchange / replacement by parallel tempering: the C08 swap unit is run under C03 as well (N<=3 chains)",
]


def _inv_list_chain(h, tag, samples_rows, probs, chain_length, post, beta):
    h.same(f"{tag}: len(probs) == len(samples)", len(probs), len(samples_rows))
    h.same(f"{tag}: chain_length == number of stored samples", chain_length, len(samples_rows))
    n = min(len(probs), len(samples_rows))
    for k in range(n):
        h.eq(f"{tag}: probs[{k}] == L(sample_{k})/T", probs[k], post.uf(np.asarray(samples_rows[k])) * beta)


def _rows(chain, cls):
    if cls == "hmc":
        return [np.asarray(t) for t in chain.theta]
    n = len(chain.params[0].samples)
    return [np.array([p.samples[k] for p in chain.params], dtype=object) for k in range(n)]


Q = [dict(cls="gibbs", d=1, retries=2), dict(cls="gibbs", d=2, retries=1), dict(cls="metropolis", d=2, retries=1),
     dict(cls="pca", d=2, retries=1), dict(cls="hmc", d=1, retries=1), dict(cls="hmc", d=2, retries=0),
     dict(cls="pca", d=2, retries=1, bounded=True), dict(cls="hmc", d=1, retries=1, bounded=True), dict(cls="gibbs", d=1, retries=2, bounded=True)]
T = [dict(cls="gibbs", d=3, retries=1), dict(cls="gibbs", d=2, retries=2), dict(cls="metropolis", d=3, retries=2), dict(cls="pca", d=2, retries=2)]


def _build(h, cls, d, ev, hist, retries, bounds=None):
    if cls in ("gibbs", "metropolis"):
        gb, chain, post, T_, pts = mc.make_metropolis_like(h, cls, d, ev, hist=hist, max_draws=retries + 1)
        h.covers(type(chain).take_step, gb.MetropolisChain.__init__, gb.Parameter.add_sample)
        if bounds is not None:
            for i in range(d):
                chain.set_boundaries(i, (bounds[0][i], bounds[1][i]))
        return chain, post, 1 / T_, pts
    if cls == "pca":
        pca, chain, post, T_, pts = mc.make_pca(h, d, ev, max_draws=2 * d * (retries + 1), bounds=bounds)
        for k in range(1, hist):
            pt = h.real(f"s{k}", d)
            pts.append(pt)
            for p, v in zip(chain.params, pt):
                p.samples.append(v)
            chain.probs.append(post(pt) * chain.inv_temp)
            chain.chain_length += 1
        h.covers(pca.PcaChain.take_step, pca.PcaChain.__init__)
        return chain, post, 1 / T_, pts
    hmc, chain, post, grad, T_, start, eps, im = mc.make_hmc(h, d, ev, mass="scalar" if d == 1 else "vector", steps=1, bounds=bounds)
    chain.max_attempts = retries + 1
    pts = [start]
    for k in range(1, hist):
        pt = h.real(f"s{k}", d)
        pts.append(pt)
        chain.theta.append(pt)
        chain.probs.append(post(pt) * chain.inv_temp)
        chain.leapfrog_steps.append(1)
        chain.chain_length += 1
    h.covers(hmc.HamiltonianChain.take_step, hmc.HamiltonianChain.__init__)
    return chain, post, 1 / T_, pts


@unit("C03", quick=Q, thorough=T, max_paths=6000, cost=5)
def constructor_and_step_preserve_invariant(h, cls, d, retries, bounded=False):
    ev = mc.Events()
    bounds = None
    if bounded:
        lo = h.real("lo", d)
        bounds = (lo, lo + h.real("wd", d, pos=True))
    chain, post, beta, pts = _build(h, cls, d, ev, 1, retries, bounds=bounds)
    rcls = "hmc" if cls == "hmc" else "list"
    _inv_list_chain(h, "after construction", _rows(chain, rcls), chain.probs, chain.chain_length, post, beta)
    # arbitrary second stored point satisfying I (inside the limits when there are limits), then one real step
    pt = h.real("s1", d) if not bounded else bounds[0] + h.real("s1f", d, lo=0, hi=1) * (bounds[1] - bounds[0])
    if cls == "hmc":
        chain.theta.append(pt)
        chain.leapfrog_steps.append(1)
    else:
        for p, v in zip(chain.params, pt):
            p.samples.append(v)
    chain.probs.append(post(pt) * chain.inv_temp)
    chain.chain_length += 1
    before_rows = [r.copy() for r in _rows(chain, rcls)]
    before_probs = list(chain.probs)
    h.allow(ValueError)
    chain.take_step()
    rows = _rows(chain, rcls)
    _inv_list_chain(h, "after take_step", rows, chain.probs, chain.chain_length, post, beta)
    h.same("exactly one sample appended", len(rows), len(before_rows) + 1)
    for k, r in enumerate(before_rows):
        h.eq(f"earlier sample {k} untouched", rows[k], r)
    for k, p in enumerate(before_probs[:len(chain.probs)]):
        h.eq(f"earlier log-probability {k} untouched", chain.probs[k], p)


@unit("C03", quick=[dict(d=1, nw=3, k=1), dict(d=2, nw=3, k=1)], thorough=[dict(d=2, nw=4, k=1), dict(d=1, nw=2, k=2)], max_paths=8000, cost=7)
def ensemble_invariant(h, d, nw, k):
    ev = mc.Events()
    en, s, post, alpha, X = mc.make_ensemble(h, d, nw, ev, max_attempts=1)
    h.covers(en.EnsembleSampler.advance, *mc.priv(en.EnsembleSampler, "_EnsembleSampler__advance_all", "_EnsembleSampler__advance_walker"))
    for i in range(nw):
        h.eq(f"before: walker_probs[{i}] == L(walker_{i})", s.walker_probs[i], post.uf(s.walker_positions[i]))
    s.failed_updates = []
    s.advance(k)
    for i in range(nw):
        h.eq(f"after advance: walker_probs[{i}] == L(walker_{i})", s.walker_probs[i], post.uf(np.asarray(s.walker_positions[i])))
    h.same("stored samples == iterations * walkers", len(s.sample), k * nw)
    h.same("stored log-probabilities == stored samples", len(s.sample_probs), len(s.sample))
    h.same("chain_length == stored samples", s.chain_length, len(s.sample))
    for r in range(len(s.sample)):
        h.eq(f"sample_probs[{r}] == L(sample row {r})", s.sample_probs[r], post.uf(np.asarray(s.sample[r])))


@unit("C03", quick=[dict(d=1, nw=2), dict(d=2, nw=3)], max_paths=4000, cost=5)
def ensemble_constructor_copies_input(h, d, nw):
    """the real constructor on symbolic starting positions: walker log-probabilities belong to the walkers,
    and advancing the sampler must not write into the caller's array"""
    ev = mc.Events()
    h.allow(ValueError)  # degenerate / co-linear starting positions are rejected by the constructor
    en, s, post, alpha, X = mc.make_ensemble(h, d, nw, ev, max_attempts=1, symbolic_ctor=True)
    h.covers(en.EnsembleSampler.__init__, *mc.priv(en.EnsembleSampler, "_EnsembleSampler__validate_starting_positions"))
    X0 = np.array(X).copy()
    for i in range(nw):
        h.eq(f"walker_probs[{i}] == L(starting position {i})", s.walker_probs[i], post.uf(X0[i]))
    s.rng = mc.EvRng(h, "crng", ev)
    s.max_attempts = 1
    s.advance(1)
    h.eq("caller's starting_positions array unchanged after advance", X, X0)
    s2 = en.EnsembleSampler(posterior=post, starting_positions=X, alpha=alpha, display_progress=False)
    h.eq("a second sampler built from the same array starts at the given positions", s2.walker_positions, X0)


def _member_with_max(h, mode, rows, probs):
    conds = []
    for k, r in enumerate(rows):
        same = [R(a) == R(b) for a, b in zip(np.asarray(mode).ravel(), np.asarray(r).ravel())]
        top = [R(probs[k]) >= R(p) for p in probs]
        conds.append(z3.And(*same, *top))
    return SymBool(z3.Or(*conds))


@unit("C03", quick=[dict(cls="gibbs", n=3), dict(cls="hmc", n=3), dict(cls="ensemble", n=3)], thorough=[dict(cls="gibbs", n=4)], max_paths=2000)
def mode_is_stored_sample_with_max_probability(h, cls, n):
    ev = mc.Events()
    d = 2
    if cls == "ensemble":
        en, s, post, alpha, X = mc.make_ensemble(h, d, 3, ev)
        rows = [h.real(f"row{k}", d) for k in range(n)]
        s.sample = np.array(rows, dtype=object if h.sym else float)
        s.sample_probs = np.array([post(r) for r in rows], dtype=object if h.sym else float)
        probs = list(s.sample_probs)
        m = s.mode()
        h.covers(en.EnsembleSampler.mode)
    else:
        chain, post, beta, pts = _build(h, cls, d, ev, n, 0)
        rows = [np.asarray(p) for p in pts]
        probs = list(chain.probs)
        m = chain.mode()
        h.covers(type(chain).mode)
    if h.sym:
        h.true("mode() is a stored sample whose stored log-probability is maximal", _member_with_max(h, m, rows, probs))
    else:
        ok = any(np.allclose(np.asarray(m, dtype=float), np.asarray(r, dtype=float)) and all(probs[k] >= p for p in probs) for k, r in enumerate(rows))
        h.same("mode() is a stored sample whose stored log-probability is maximal", ok, True)


@unit("C03", quick=[dict(cls="gibbs"), dict(cls="pca"), dict(cls="hmc")], max_paths=4000, cost=4)
def samplers_from_shared_inputs_are_independent(h, cls):
    import inference.mcmc.gibbs as gbm
    d = 2
    ev = mc.Events()
    ev2 = mc.Events()
    dt = object if h.sym else float
    start = h.real("start", d)
    widths = h.real("widths", d, pos=True)
    start0, widths0 = start.copy(), widths.copy()
    gb = mc.patch_gibbs(h)
    post = mc.recording_posterior(h, d, ev)
    if cls == "gibbs":
        mk = lambda: gb.GibbsChain(posterior=post, start=start, widths=widths, display_progress=False)  # noqa: E731
    elif cls == "pca":
        import inference.mcmc.pca as pca
        h.patch(pca, zeros=mc._fzeros)
        mk = lambda: pca.PcaChain(posterior=post, start=start, widths=widths, display_progress=False)  # noqa: E731
    else:
        import inference.mcmc.hmc as hmc
        from symnp import funcs
        from symnp.core import ozeros
        h.patch(hmc, float64=object, isfinite=funcs.isfinite, zeros=ozeros)
        grad = mc.recording_gradient(h, d, ev)
        mk = lambda: hmc.HamiltonianChain(posterior=post, start=start, grad=grad, epsilon=h.real("eps", pos=True), display_progress=False)  # noqa: E731
    a, b = mk(), mk()
    for c, tag in ((a, "a"), (b, "b")):
        c.rng = mc.EvRng(h, f"rng{tag}", ev, 4)
        if hasattr(c, "params"):
            for i, p in enumerate(c.params):
                p.rng = mc.EvRng(h, f"prng{tag}{i}", ev, 3)
        if cls == "hmc":
            c.steps = 1
            c.max_attempts = 1
            c.ES = mc.RecordingES(c.ES.epsilon)
    b_last = np.array(b.get_last(), dtype=dt).copy()
    b_prob = b.probs[-1]
    h.allow(ValueError)
    a.take_step()
    h.eq("caller's start array unchanged", start, start0)
    h.eq("caller's widths array unchanged", widths, widths0)
    h.eq("the other sampler's current point unchanged", np.array(b.get_last(), dtype=dt), b_last)
    h.eq("the other sampler's log-probability unchanged", b.probs[-1], b_prob)
    h.same("the other sampler's length unchanged", b.chain_length, 1)


@unit("C03", quick=[dict(N=2, cp=4), dict(N=3, cp=2)], thorough=[dict(N=3, cp=5)], max_paths=20000, cost=5)
def points_installed_by_a_tempering_exchange_carry_their_own_log_probability(h, N, cp):
    """a parallel-tempering exchange installs the partner's point as the last recorded sample of a chain: afterwards the
    chain's last recorded log-probability must be the log-density of *that* point divided by the receiving chain's
    temperature, and chains that did not exchange are untouched.  Same execution of the real ParallelTempering.swap /
    tempering_process / replace_last code (under the baton scheduler, forked interleavings) as C08's unit, asserted here
    for C03's invariant"""
    from harness import c08
    c08.swap_is_metropolis_exchange(h, N, cp)
