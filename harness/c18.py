"""C18 — acquisition functions compute what they define; proposals respect bounds"""
import numpy as np
import z3

from symnp import funcs, stubs
from symnp.harness import unit
from harness import gp_common as gc

EXPLANATION = (
    "ExpectedImprovement / UpperConfidenceBound / MaxVariance (__call__, opt_func, opt_func_gradient, update_gp, "
    "starting_positions) and GpOptimiser (__init__, add_evaluation, multistart_bfgs, diff_evo, propose_evaluation) are "
    "executed against a stub regressor whose predictive mean mu(x) and variance v(x) are uninterpreted smooth functions "
    "with derivative symbols (any regressor state), symbolic incumbent y_max and kappa; erf / erfcx are uninterpreted "
    "with their defining axioms. Asserted: EI == sigma (Z Phi(Z) + phi(Z)) in the ordinary (Z >= -3) and in the far-tail "
    "(Z < -3) branch (same expression, hence continuous across the switch); opt_func == -log EI in both branches; "
    "opt_func_gradient returns the same value and its true spatial gradient; UCB == mu + kappa sigma, MaxVariance == "
    "sigma^2, with their value-and-gradient forms; starting positions and proposals (L-BFGS-B / differential evolution "
    "replaced by their contracts) lie inside the search bounds and the proposal is the best optimiser result; "
    "add_evaluation appends the new point to the data of the next fit, updates the incumbent maximum, and neither "
    "__init__ nor add_evaluation changes the caller's arrays (values and shape)."
    " Call-sequence unit: one acquisition object evaluated at x under regressor 1, update_gp(regressor 2), evaluated at the same x, another point, and back: always the definition under the regressor held at the time of the call. starting_positions is run with the bounds as tuples, lists and a float ndarray, twice, and the caller's bounds must be unchanged."
)
BOUNDS = {"quick": "d<=2, 2-3 data points, <=3 optimiser starts", "thorough": "d=3 for the acquisition identities"}
ASSUMPTIONS = [
    "'EI is E[max(f - y_max, 0)] under N(mu, sigma^2)' = the textbook closed form sigma (Z Phi + phi) (trusted)",
    "erf/erfcx: oddness, range, erfcx(a) = exp(a^2)(1 - erf a), textbook derivatives",
    "L-BFGS-B contract: feasible point no worse than its start; differential_evolution contract: feasible point",
]


def _stub_gp(h, d, ny=2, smooth=True, tag=""):
    """smooth=True: replay through a fixed smooth concrete predictive mean/variance (needed where the replay
    differentiates numerically); smooth=False: replay the solver model's own values of mu and var"""
    dt = object if h.sym else float
    if smooth:
        mu, dmu = gc.smooth_ufunc(h, "mu" + tag, d, seed=1 + 2 * len(tag))
        var, dvar = gc.smooth_ufunc(h, "var" + tag, d, seed=2 + 2 * len(tag), positive=True)
    else:
        mu, var = h.ufunc("mu" + tag, d), h.ufunc("var" + tag, d)
        dmu = [h.ufunc(f"mu{tag}_d{k}", d) for k in range(d)]
        dvar = [h.ufunc(f"var{tag}_d{k}", d) for k in range(d)]

    class GP:
        def __init__(self):
            self.y = h.real("ydata" + tag, ny)
            self.x = h.real("xdata" + tag, (ny, d))

        def __call__(self, x):
            x = np.asarray(x).ravel()
            v = var(x)
            if h.sym:
                h.ctx.side.append(v.e > 0)
            return np.array([mu(x)], dtype=dt), np.array([h.sqrt(v)], dtype=dt)

        def spatial_derivatives(self, x):
            x = np.asarray(x).ravel()
            return np.array([f(x) for f in dmu], dtype=dt), np.array([f(x) for f in dvar], dtype=dt)
    return GP(), mu, var


def _acq(h, kind, d, smooth=True):
    import inference.gp.acquisition as aq
    h.patch(aq, erf=funcs.erf, erfcx=funcs.erfcx, float=stubs.FloatLike)
    gp, mu, var = _stub_gp(h, d, smooth=smooth)
    A = {"EI": aq.ExpectedImprovement, "UCB": aq.UpperConfidenceBound, "MV": aq.MaxVariance}[kind]
    kap = h.real("kappa", nonneg=True) if kind == "UCB" else None    # any kappa >= 0, zero included
    a = A() if kind != "UCB" else A(kappa=kap)
    a.requested_kappa = kap
    a.update_gp(gp)
    h.covers(A.__call__, A.opt_func, A.opt_func_gradient, aq.AcquisitionFunction.update_gp)
    if kind == "EI":
        h.covers(A.normal_pdf, A.normal_cdf, A.cdf_pdf_ratio, A.ln_pdf, A.__init__)
    return aq, a, gp, mu, var


def _ei_ref(h, mu, var, ymax, x):
    s = h.sqrt(var(x))
    Z = (mu(x) - ymax) / s
    Phi = 0.5 * (1 + h.erf(Z / h.const("sqrt2")))
    phi = h.exp(-0.5 * Z * Z) / (h.const("sqrt2") * h.const("sqrtpi"))
    return s * (Z * Phi + phi), Z


def _max(h, y):
    m = y[0]
    for v in y[1:]:
        m = h.ite(v > m, v, m)
    return m


@unit("C18", quick=[dict(d=1), dict(d=2)], thorough=[dict(d=3)], cost=4, timeout_ms=60000)
def expected_improvement_both_branches(h, d):
    aq, a, gp, mu, var = _acq(h, "EI", d, smooth=False)
    x = h.real("x", d)
    ymax = _max(h, gp.y)
    h.eq("incumbent == max of the data", a.mu_max, ymax)
    ref, Z = _ei_ref(h, mu, var, ymax, x)
    if not h.sym and not (var(x) > 0):
        from symnp.harness import ReplayMismatch
        raise ReplayMismatch("model variance not positive")
    val = a(x)
    h.eq("EI == sigma (Z Phi(Z) + phi(Z))  [branch chosen by Z < -3 on this path]", val, ref)
    of = a.opt_func(x)
    h.eq("opt_func == -log EI", of, -h.log(val))
    v2, g = a.opt_func_gradient(x)
    h.eq("opt_func_gradient value == opt_func", v2, of)


@unit("C18", quick=[dict(d=1), dict(d=2)], thorough=[dict(d=3)], cost=4, timeout_ms=60000)
def expected_improvement_gradient(h, d):
    aq, a, gp, mu, var = _acq(h, "EI", d, smooth=True)
    x = h.real("x", d)
    v2, g = a.opt_func_gradient(x)
    h.is_gradient("opt_func_gradient == d opt_func / d x  [branch chosen by Z < -3 on this path]", lambda t: a.opt_func(t), x, np.atleast_1d(g))


@unit("C18", quick=[dict(kind="UCB", d=1), dict(kind="UCB", d=2), dict(kind="MV", d=1), dict(kind="MV", d=2)], thorough=[dict(kind="UCB", d=3), dict(kind="MV", d=3)])
def ucb_and_max_variance(h, kind, d):
    aq, a, gp, mu, var = _acq(h, kind, d)
    x = h.real("x", d)
    s = h.sqrt(var(x))
    ref = mu(x) + a.requested_kappa * s if kind == "UCB" else var(x)
    val = a(x)
    h.eq("value == definition", val, ref)
    h.eq("opt_func == -value", a.opt_func(x), -val)
    v2, g = a.opt_func_gradient(x)
    h.eq("opt_func_gradient value == opt_func", v2, -val)
    h.is_gradient("opt_func_gradient == d opt_func / d x", lambda t: a.opt_func(t), x, np.atleast_1d(g))


@unit("C18", quick=[dict(d=1, ny=2, rounds=2), dict(d=2, ny=2), dict(d=1, ny=2, form="ndarray", rounds=2), dict(d=1, ny=2, form="lists", rounds=2)],
      thorough=[dict(d=2, ny=3), dict(d=2, ny=2, form="ndarray", rounds=2)], max_paths=4000)
def starting_positions_inside_bounds(h, d, ny, form="tuples", rounds=1):
    import inference.gp.acquisition as aq
    h.patch(aq, minimum=funcs.minimum, maximum=funcs.maximum, float=stubs.FloatLike)
    rng = stubs.SymRng(h, "starts")
    h.patch(aq, both=True, random=lambda size=None: rng.random(size=size))
    h.covers(aq.AcquisitionFunction.starting_positions)
    gp, mu, var = _stub_gp(h, d, ny)
    a = aq.UpperConfidenceBound()
    a.gp = gp
    pick = h.choice("selected sample", [0, 7, 19])
    counter = [0]

    def key(s):  # concrete keys: the `pick`-th candidate of each local search wins
        k = counter[0] % 20
        counter[0] += 1
        return 0.0 if k == pick else 1.0 + k
    a.opt_func = key
    lo = h.real("blo", d)
    wd = h.real("bwd", d, pos=True)
    bounds = [(lo[i], lo[i] + wd[i]) for i in range(d)]
    if form == "ndarray":
        bounds = np.array(bounds, dtype=object if h.sym else float)
    elif form == "lists":
        bounds = [list(b) for b in bounds]
    for rnd in range(rounds):  # the caller's bounds must survive a call: the second round sees the same box
        counter[0] = 0
        starts = a.starting_positions(bounds)
        h.same(f"round {rnd}: one start per data point", len(starts), ny)
        for k, s in enumerate(starts):
            h.ge(f"round {rnd}: start {k} >= lower bound", s, lo)
            h.le(f"round {rnd}: start {k} <= upper bound", s, lo + wd)
        h.eq(f"round {rnd}: caller's bounds unchanged", np.array([[b[0], b[1]] for b in bounds], dtype=object if h.sym else float),
             np.array([[lo[i], lo[i] + wd[i]] for i in range(d)], dtype=object if h.sym else float))


def _optimiser(h, d, n, with_err=True, one_d_input=False):
    import inference.gp.optimisation as op
    import inference.gp.acquisition as aq
    h.patch(aq, erf=funcs.erf, erfcx=funcs.erfcx, minimum=funcs.minimum, maximum=funcs.maximum, float=stubs.FloatLike)
    h.patch(op, float=stubs.FloatLike)
    fits = []
    dt = object if h.sym else float
    mu, dmu = gc.smooth_ufunc(h, "mu", d, seed=1)
    var, dvar = gc.smooth_ufunc(h, "var", d, seed=2, positive=True)

    class RecGP:
        def __init__(self, x=None, y=None, y_err=None, **kw):
            self.x = np.array(x, dtype=dt).reshape(-1, d)
            self.y = np.array(y, dtype=dt)
            self.y_err = None if y_err is None else np.array(y_err, dtype=dt)
            fits.append(self)

        def __call__(self, x):
            x = np.asarray(x).ravel()
            v = var(x)
            if h.sym:
                h.ctx.side.append(v.e > 0)
            return np.array([mu(x)], dtype=dt), np.array([h.sqrt(v)], dtype=dt)

        def spatial_derivatives(self, x):
            x = np.asarray(x).ravel()
            return np.array([f(x) for f in dmu], dtype=dt), np.array([f(x) for f in dvar], dtype=dt)
    h.patch(op, both=True, GpRegressor=RecGP)
    x = h.real("x", n) if one_d_input else h.real("x", (n, d))
    y = h.real("y", n)
    e = h.real("yerr", n, pos=True) if with_err else None
    lo = h.real("blo", d)
    wd = h.real("bwd", d, pos=True)
    bounds = [(lo[i], lo[i] + wd[i]) for i in range(d)]
    return op, aq, fits, x, y, e, lo, wd, bounds


@unit("C18", quick=[dict(d=1, one_d=True), dict(d=1, one_d=False), dict(d=2, one_d=False), dict(d=1, one_d=True, design="int"), dict(d=2, one_d=False, design="int")], max_paths=4000)
def add_evaluation_extends_data_and_keeps_callers_arrays(h, d, one_d, design="float"):
    op, aq, fits, x, y, e, lo, wd, bounds = _optimiser(h, d, 2, with_err=True, one_d_input=one_d)
    h.covers(op.GpOptimiser.__init__, op.GpOptimiser.add_evaluation)
    if design == "int":
        # an initial design given as an integer array (any numeric dtype is accepted); the added point is an arbitrary real
        x = np.array([-8, 6]) if one_d else np.array([[-8, 3], [6, -2]])[:, :d]
    x0, y0, e0 = x.copy(), y.copy(), e.copy()
    shape0 = x.shape
    G = op.GpOptimiser(x, y, bounds, y_err=e, hyperpars=np.zeros(d + 2), acquisition=aq.UpperConfidenceBound)
    h.same("__init__ leaves the shape of the caller's x array unchanged", x.shape, shape0)
    h.eq("__init__ leaves the caller's x values unchanged", x.reshape(-1), x0.reshape(-1))
    h.eq("__init__ leaves the caller's y values unchanged", y, y0)
    h.eq("first fit uses the given data", fits[0].x.ravel(), x0.ravel())
    nx = h.real("new_x", d)
    ny = h.real("new_y")
    ne = h.real("new_err", pos=True)
    nx0 = nx.copy()
    nshape = nx.shape
    G.add_evaluation(nx, ny, ne)
    h.same("add_evaluation leaves the shape of the caller's new_x unchanged", nx.shape, nshape)
    h.eq("add_evaluation leaves the caller's new_x values unchanged", nx.reshape(-1), nx0)
    h.same("a new fit was made", len(fits), 2)
    h.eq("next fit: x data == old data followed by the new point", fits[-1].x.ravel(), np.concatenate([x0.ravel(), nx0]))
    h.eq("next fit: y data == old data followed by the new value", fits[-1].y, np.concatenate([y0, [ny]]))
    h.eq("next fit: errors == old errors followed by the new error", fits[-1].y_err, np.concatenate([e0, [ne]]))
    ymax = _max(h, np.concatenate([y0, [ny]]))
    h.eq("incumbent maximum updated", G.acquisition.mu_max, ymax)
    h.eq("caller's original arrays still unchanged", np.concatenate([x.reshape(-1), y]), np.concatenate([x0.reshape(-1), y0]))


@unit("C18", quick=[dict(d=1, opt="bfgs"), dict(d=2, opt="bfgs"), dict(d=1, opt="diffev"), dict(d=2, opt="diffev")], max_paths=6000, cost=4)
def proposals_inside_bounds(h, d, opt):
    op, aq, fits, x, y, e, lo, wd, bounds = _optimiser(h, d, 2, with_err=False)
    h.covers(op.GpOptimiser.propose_evaluation, op.GpOptimiser.multistart_bfgs, op.GpOptimiser.launch_bfgs, op.GpOptimiser.diff_evo)
    dt = object if h.sym else float
    G = op.GpOptimiser(x, y, bounds, hyperpars=np.zeros(d + 2), acquisition=aq.UpperConfidenceBound(kappa=h.real("kappa", nonneg=True)), optimizer=opt)
    rng = stubs.SymRng(h, "starts")
    h.patch(aq, both=True, random=lambda size=None: rng.random(size=size))
    score, dscore = gc.smooth_ufunc(h, "score", d, seed=4)
    G.acquisition.opt_func = lambda t: score(np.asarray(t).ravel())
    G.acquisition.opt_func_gradient = lambda t: (score(np.asarray(t).ravel()), np.array([f(np.asarray(t).ravel()) for f in dscore], dtype=dt))
    # keep the local random search of starting_positions out of the way: the data points are outside the box
    if h.sym:
        for r in G.acquisition.gp.x:
            h.assume(r[0] < lo[0], "data points outside the search box (uniform random starts)")
    results = []

    def lbfgs_contract(func, x0, approx_grad=False, bounds=None, **kw):
        k = len(results)
        frac = h.real(f"opt{k}", d, lo=0, hi=1)
        xs = np.array([b[0] + frac[i] * (b[1] - b[0]) for i, b in enumerate(bounds)], dtype=dt)
        f0, _ = func(np.asarray(x0))
        fs, _ = func(xs)
        h.assume(fs <= f0, "L-BFGS-B contract: result no worse than its start")
        results.append((xs, fs))
        return xs, fs, {"warnflag": 0}

    def de_contract(func, bounds, **kw):
        frac = h.real("de", d, lo=0, hi=1)
        xs = np.array([b[0] + frac[i] * (b[1] - b[0]) for i, b in enumerate(bounds)], dtype=dt)
        results.append((xs, func(xs)))

        class R:
            x = xs
            fun = results[-1][1]
        return R()
    h.patch(op, fmin_l_bfgs_b=lbfgs_contract, differential_evolution=de_contract)
    prop = G.propose_evaluation()
    prop = np.atleast_1d(prop) if not isinstance(prop, np.ndarray) else prop
    h.ge("proposal >= lower bounds", prop, lo)
    h.le("proposal <= upper bounds", prop, lo + wd)
    if h.sym:
        for k, (xs, fs) in enumerate(results):
            h.le(f"proposal is the best optimiser result [{k}]", score(prop), fs)


@unit("C18", quick=[dict(kind=k, d=1) for k in ("EI", "UCB", "MV")], thorough=[dict(kind=k, d=2) for k in ("EI", "UCB", "MV")], cost=4, timeout_ms=60000)
def acquisition_follows_the_current_regressor(h, kind, d):
    """a call sequence on one acquisition object: evaluate at x under regressor 1, hand over regressor 2 with update_gp (what
    every add_evaluation does), evaluate at the *same* x again, then at another point and back.  Every value must be the
    definition under the regressor held at the time of the call"""
    aq, a, gp1, mu1, var1 = _acq(h, kind, d, smooth=False)
    gp2, mu2, var2 = _stub_gp(h, d, smooth=False, tag="B")
    x = h.real("x", d)
    z = h.real("z", d)

    def ref(mu, var, gp, t):
        if kind == "UCB":
            return mu(t) + a.requested_kappa * h.sqrt(var(t))
        if kind == "MV":
            return var(t)
        return _ei_ref(h, mu, var, _max(h, gp.y), t)[0]
    h.eq("regressor 1: value at x", a(x), ref(mu1, var1, gp1, x))
    a.opt_func(x)
    a.opt_func_gradient(x)
    a.update_gp(gp2)
    h.eq("regressor 2: value at the same x", a(x), ref(mu2, var2, gp2, x))
    h.eq("regressor 2: opt_func at the same x", a.opt_func(x), -a(x) if kind != "EI" else -h.log(a(x)))
    v, g = a.opt_func_gradient(x)
    h.eq("regressor 2: opt_func_gradient value at the same x", v, a.opt_func(x))
    h.eq("regressor 2: value at z", a(z), ref(mu2, var2, gp2, z))
    a.update_gp(gp1)
    h.eq("regressor 1 again: value at z", a(z), ref(mu1, var1, gp1, z))
    h.eq("regressor 1 again: value at x", a(x), ref(mu1, var1, gp1, x))
