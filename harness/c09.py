"""C09 — a saved sampler reloads to an equivalent sampler that can continue"""
import os
import tempfile

import numpy as np
import z3

from symnp import funcs, stubs
from symnp.core import ozeros
from symnp.harness import unit
from harness import mcmc_common as mc

EXPLANATION = (
    "For GibbsChain, MetropolisChain, PcaChain, HamiltonianChain and EnsembleSampler, with and without bounds / "
    "non-default temperature / mass, fresh and with stored history and symbolic tuning state: the real save() and "
    "load() run against an in-memory store with the npz contract (values round-trip exactly; scalars become 0-d arrays), "
    "with float/int/bool coercions of the loaders being identity on symbolic values. Asserted: every public read-out of the "
    "loaded object (samples, log-probabilities, length, bounds, proposal widths / step size / temperature) equals the "
    "original's; then both objects are given the same symbolic random draws and take_step / advance(1) is executed on "
    "both: the appended sample, log-probability and post-state are equal; an exception on the loaded side that the "
    "original does not raise is a counterexample (missing attributes after load)."
    ' The HMC step-size tuner is saved mid-assessment (arbitrary running sums, an earlier adjustment on record) and every item of its reported state must come back with the saved value.'
)
BOUNDS = {"quick": "dimension <=2, history <=2 stored points, one continuation step (<=1 retry per coordinate); with constructor bounds the continuation is not re-run (the fold is deterministic and checked by C04): read-outs, bounds and the selected proposal/trajectory mode are compared", "thorough": "adds 2 retries and a vector-mass variant in one dimension (two-dimensional continuation steps with vector or matrix mass are undecided within 120 s)"}
ASSUMPTIONS = [
    "npz contract instead of the real zip/pickle layer (dtype narrowing on disk outside); replays use the real numpy.savez/load",
    "the reloaded sampler is given the same random draws as the original (twin recording generators)",
]


class Draws:
    """a shared, lazily created sequence of symbolic draws consumed independently by two generators"""

    def __init__(self, h, tag):
        self.h, self.tag, self.vals = h, tag, []

    def get(self, k, kind):
        while len(self.vals) <= k:
            n = len(self.vals)
            if kind == "u":
                self.vals.append(self.h.real(f"{self.tag}.u{n}", lo=0, hi=1, hi_strict=True))
            else:
                self.vals.append(self.h.real(f"{self.tag}.z{n}"))
        return self.vals[k]


class TwinRng:
    def __init__(self, draws, max_draws=12):
        self.d, self.k, self.max = draws, 0, max_draws

    def _n(self, kind):
        from symnp.core import PathAbort
        if self.k >= self.max:
            raise PathAbort("bound", "more random draws than the explored bound")
        v = self.d.get(self.k, kind)
        self.k += 1
        return v

    def normal(self, loc=0.0, scale=1.0, size=None):
        if size is None:
            return loc + scale * self._n("z")
        n = size if isinstance(size, int) else int(np.prod(size))
        z = np.array([self._n("z") for _ in range(n)], dtype=object if self.d.h.sym else float)
        return loc + scale * z

    def random(self, size=None):
        return self._n("u")

    def integers(self, low, high=None, size=None):
        return low  # deterministic choice (both twins take the same one)


def _store(h, *modules):
    """in-memory npz store (symbolic) / real files (replay) installed in the given modules"""
    if h.sym:
        st = stubs.NpzStore()
        for m in modules:
            names = {k: v for k, v in dict(savez=st.savez, savez_compressed=st.savez, load=st.load).items() if hasattr(m, k)}
            h.patch(m, **names)
            h.patch(m, float=stubs.sym_float, int=stubs.sym_int, bool=stubs.sym_bool)
        return "chain.npz", None
    tmp = tempfile.mkdtemp(prefix="verif_c09_")
    return os.path.join(tmp, "chain.npz"), tmp


def _cleanup(tmp):
    if tmp:
        import shutil
        shutil.rmtree(tmp, ignore_errors=True)


def _cmp_common(h, a, b, d, tag=""):
    h.same(f"{tag}chain_length", int(b.chain_length), int(a.chain_length))
    h.eq(f"{tag}get_sample(burn=0)", np.asarray(b.get_sample(burn=0)), np.asarray(a.get_sample(burn=0)))
    h.eq(f"{tag}get_probabilities(burn=0)", np.asarray(b.get_probabilities(burn=0)), np.asarray(a.get_probabilities(burn=0)))
    for i in range(d):
        h.eq(f"{tag}get_parameter({i})", np.asarray(b.get_parameter(i, burn=0)), np.asarray(a.get_parameter(i, burn=0)))


def _cmp_numeric_fields(h, tag, p, q):
    """every numeric scalar field two state objects both carry (saved vs loaded)"""
    for name in sorted(set(vars(p)) & set(vars(q))):
        u, v = vars(p)[name], vars(q)[name]
        if callable(u) or isinstance(u, (bool, str, np.ndarray, list, tuple, dict)) or u is None:
            continue
        if isinstance(u, (int, float, np.integer, np.floating)) or type(u).__name__ in ("SymReal", "SymInt"):
            h.eq(f"{tag} field '{name}'", v, u)


Q = [dict(cls="gibbs", d=2, hist=1, limits=False), dict(cls="gibbs", d=1, hist=2, limits=True), dict(cls="metropolis", d=2, hist=2, limits=False)]
T = [dict(cls="gibbs", d=2, hist=2, limits=True)]


@unit("C09", quick=Q, thorough=T, max_paths=4000, cost=5)
def gibbs_save_load_continue(h, cls, d, hist, limits):
    ev = mc.Events()
    gb, a, post, T_, pts = mc.make_metropolis_like(h, cls, d, ev, hist=hist, max_draws=None)
    h.covers(gb.MetropolisChain.save, gb.MetropolisChain.load, gb.Parameter.get_items, gb.Parameter.load)
    if limits:
        lo = h.real("lim_lo", nonneg=True)
        a.set_non_negative(0)  # both kinds of limit on the same parameter
        a.set_boundaries(0, (lo, lo + h.real("lim_w", pos=True)))
        if d > 1:
            a.set_non_negative(1)
    for i, p in enumerate(a.params):  # arbitrary tuning state
        p.avg = h.real(f"avg{i}", nonneg=True)
        p.var = h.real(f"var{i}", nonneg=True)
        p.num = 3
    fn, tmp = _store(h, gb)
    try:
        a.save(fn)
        C = type(a)
        b = C.load(fn, posterior=post)
        _cmp_common(h, a, b, d, "loaded: ")
        h.eq("loaded: temperature", b.inv_temp, a.inv_temp)
        for i, (p, q) in enumerate(zip(a.params, b.params)):
            h.eq(f"loaded: proposal width {i}", q.sigma, p.sigma)
            h.eq(f"loaded: tuning statistics {i}", np.array([q.avg, q.var, q.num], dtype=object), np.array([p.avg, p.var, p.num], dtype=object))
            h.same(f"loaded: limits flags {i}", (bool(q.bounded), bool(q.non_negative)), (bool(p.bounded), bool(p.non_negative)))
            h.same(f"loaded: active proposal kind {i}", q.proposal.__name__, p.proposal.__name__)
            if p.bounded:
                h.eq(f"loaded: boundaries {i}", np.array([q.lower, q.upper], dtype=object), np.array([p.lower, p.upper], dtype=object))
            # every other numeric field the parameter object carries (growth factor, target rate, check schedule ...):
            # fields only consulted at a later proposal-width check are state all the same
            _cmp_numeric_fields(h, f"loaded: parameter {i}", p, q)
        # identical continuation under identical random draws
        dr = Draws(h, "chain")
        nd = 1 if limits else 2
        a.rng, b.rng = TwinRng(dr, nd), TwinRng(dr, nd)
        for i, (p, q) in enumerate(zip(a.params, b.params)):
            dp = Draws(h, f"par{i}")
            p.rng, q.rng = TwinRng(dp, nd), TwinRng(dp, nd)
        a.take_step()
        b.take_step()
        _cmp_common(h, a, b, d, "after one more step: ")
        if not limits:
            for c in (a, b):
                c.rng.max = nd + 1
                for p in c.params:
                    p.rng.max = nd + 1
            a.advance(1)
            b.advance(1)
            _cmp_common(h, a, b, d, "after advance(1): ")
        b.save(fn)  # a reloaded sampler can itself be saved
    finally:
        _cleanup(tmp)


@unit("C09", quick=[dict(d=2, bounded=False, hist=1, updated=False), dict(d=2, bounded=True, hist=2, updated=False), dict(d=2, bounded=False, hist=2, updated=True)],
      thorough=[dict(d=3, bounded=False, hist=2, updated=True)], max_paths=4000, cost=5)
def pca_save_load_continue(h, d, bounded, hist, updated):
    import inference.mcmc.pca as pca
    import inference.mcmc.utilities as ut
    ev = mc.Events()
    bounds = None
    if bounded:
        lo = h.real("lo", d)
        bounds = (lo, lo + h.real("w", d, pos=True))
    pcam, a, post, T_, pts = mc.make_pca(h, d, ev, bounds=bounds)
    h.covers(pca.PcaChain.save, pca.PcaChain.load)
    for k in range(1, hist):
        pt = pts[0] if bounds is not None else h.real(f"s{k}", d)
        for p, v in zip(a.params, pt):
            p.samples.append(v)
        a.probs.append(post(pt) * a.inv_temp)
        a.chain_length += 1
    dt = object if h.sym else float
    if updated:
        # arbitrary state after direction updates: general (non-symmetric) direction matrix, covariance estimate,
        # convergence history and a later update schedule
        V = h.real("dir", (d, d))
        a.directions = [np.array(V[:, i], dtype=dt) for i in range(d)]
        C = h.real("covar", (d, d))
        a.covar = 0.5 * (C + C.T)
        a.angles_history = [list(h.real("angles", d))]
        a.update_history = [100]
        a.last_update, a.dir_update_interval, a.next_update = 100, 150, 250
    fn, tmp = _store(h, pca, __import__("inference.mcmc.gibbs", fromlist=["x"]))
    try:
        a.save(fn)  # also before the first direction update (updated=False)
        b = pca.PcaChain.load(fn, posterior=post)
        _cmp_common(h, a, b, d, "loaded: ")
        h.eq("loaded: temperature", b.inv_temp, a.inv_temp)
        h.eq("loaded: directions", np.array(b.directions), np.array(a.directions))
        for i, (p, q) in enumerate(zip(a.params, b.params)):
            _cmp_numeric_fields(h, f"loaded: parameter {i}", p, q)
        if updated:
            h.eq("loaded: covariance estimate", np.asarray(b.covar), np.asarray(a.covar))
            h.eq("loaded: convergence history", np.array(b.angles_history), np.array(a.angles_history))
            h.same("loaded: update history", [int(v) for v in b.update_history], [int(v) for v in a.update_history])
        h.same("loaded: update schedule", (int(b.last_update), int(b.next_update), int(b.dir_update_interval)), (a.last_update, a.next_update, a.dir_update_interval))
        if bounded:
            h.eq("loaded: bounds", np.concatenate([b.bounds.lower, b.bounds.upper]), np.concatenate([a.bounds.lower, a.bounds.upper]))
        else:
            h.same("loaded: no bounds", b.bounds is None, True)
        h.same("loaded: proposal processing matches the bounds", b.process_proposal == (b.bounds.reflect if bounded else b.pass_through), True)
        if not bounded:  # the continuation under bounds only adds the (deterministic) fold, checked by C04
            dr = Draws(h, "chain")
            a.rng, b.rng = TwinRng(dr, 2 * d), TwinRng(dr, 2 * d)
            a.take_step()
            b.take_step()
            _cmp_common(h, a, b, d, "after one more step: ")
    finally:
        _cleanup(tmp)


@unit("C09", quick=[dict(d=1, mass="scalar", bounded=False), dict(d=2, mass="vector", bounded=True)], thorough=[dict(d=1, mass="vector", bounded=False)],
      max_paths=4000, cost=6)
def hmc_save_load_continue(h, d, mass, bounded):
    import inference.mcmc.hmc as hmc
    import inference.mcmc.hmc.epsilon as epm
    ev = mc.Events()
    bounds = None
    if bounded:
        lo = h.real("lo", d)
        bounds = (lo, lo + h.real("w", d, pos=True))
    hm, a, post, grad, T_, start, eps, im = mc.make_hmc(h, d, ev, mass=mass, bounds=bounds, steps=1, real_es=True)
    h.covers(hmc.HamiltonianChain.save, hmc.HamiltonianChain.load, epm.EpsilonSelector.get_items, epm.EpsilonSelector.load_items)
    a.run_leapfrog = a.bounded_leapfrog if bounded else a.standard_leapfrog
    h.patch(epm, float=stubs.sym_float, int=stubs.sym_int)
    # the step-size tuner is saved in the middle of an assessment window: arbitrary running sums, an earlier adjustment on record
    a.ES.avg = h.real("es_avg", lo=0, hi=2)
    a.ES.var = h.real("es_var", lo=0, hi=2)
    a.ES.num = 2
    a.ES.epsilon_values = list(a.ES.epsilon_values) + [h.real("es_eps1", pos=True)]
    a.ES.epsilon_checks = list(a.ES.epsilon_checks) + [7.0]
    fn, tmp = _store(h, hmc)
    try:
        a.save(fn)
        b = hmc.HamiltonianChain.load(fn, posterior=post, grad=grad)
        b.steps = a.steps
        _cmp_common(h, a, b, d, "loaded: ")
        items_a, items_b = dict(a.ES.get_items()), dict(b.ES.get_items())
        h.same("loaded: the tuner reports the same set of state items", sorted(items_a), sorted(items_b))
        for key in sorted(items_a):
            if key in items_b:
                va, vb = np.asarray(items_a[key]), np.asarray(items_b[key])
                h.same(f"loaded: tuner item '{key}' has the same shape", va.shape, vb.shape)
                if va.shape == vb.shape:
                    h.eq(f"loaded: tuner item '{key}' has the saved value", vb, va)
        h.eq("loaded: temperature", b.inv_temp, a.inv_temp)
        h.eq("loaded: step size", b.ES.epsilon, a.ES.epsilon)
        _cmp_numeric_fields(h, "loaded: step-size tuner", a.ES, b.ES)
        if bounded:
            h.eq("loaded: bounds", np.concatenate([b.bounds.lower, b.bounds.upper]), np.concatenate([a.bounds.lower, a.bounds.upper]))
        h.same("loaded: trajectory integrator matches the bounds", b.run_leapfrog == (b.bounded_leapfrog if bounded else b.standard_leapfrog), True)
        h.eq("loaded: inverse mass", np.asarray(b.mass.inv_mass), np.asarray(a.mass.inv_mass))
        if not bounded:
            dr = Draws(h, "chain")
            a.rng, b.rng = TwinRng(dr, d + 2), TwinRng(dr, d + 2)
            a.max_attempts = b.max_attempts = 1
            h.allow(ValueError)
            a.take_step()
            b.take_step()
            _cmp_common(h, a, b, d, "after one more step: ")
    finally:
        _cleanup(tmp)


@unit("C09", quick=[dict(d=1, nw=2, bounded=False, advanced=False), dict(d=1, nw=2, bounded=True, advanced=False), dict(d=1, nw=2, bounded=False, advanced=True)], max_paths=4000, cost=6)
def ensemble_save_load_continue(h, d, nw, bounded, advanced):
    ev = mc.Events()
    bounds = None
    if bounded:
        lo = h.real("lo", d)
        bounds = (lo, lo + h.real("w", d, pos=True))
    en, a, post, alpha, X = mc.make_ensemble(h, d, nw, ev, bounds=bounds, max_attempts=1)
    h.covers(en.EnsembleSampler.save, en.EnsembleSampler.load)
    a.failed_updates = []
    dr0 = Draws(h, "pre")
    a.rng = TwinRng(dr0, 4 * nw)
    if advanced:
        a.advance(1)
    fn, tmp = _store(h, en)
    try:
        a.save(fn)
        b = en.EnsembleSampler.load(fn, posterior=post)
        h.eq("loaded: walker positions", b.walker_positions, a.walker_positions)
        h.eq("loaded: walker log-probabilities", b.walker_probs, a.walker_probs)
        h.same("loaded: chain_length", int(getattr(b, "chain_length", -1)), int(a.chain_length))
        h.eq("loaded: stretch parameter", b.alpha, a.alpha)
        if advanced:
            h.eq("loaded: stored samples", b.get_sample(), a.get_sample())
            h.eq("loaded: stored log-probabilities", b.get_probabilities(), a.get_probabilities())
        if bounded:
            h.eq("loaded: bounds", np.concatenate([b.bounds.lower, b.bounds.upper]), np.concatenate([a.bounds.lower, a.bounds.upper]))
            h.same("loaded: proposal processing matches the bounds", b.process_proposal == b.bounds.reflect, True)
        else:
            dr = Draws(h, "chain")
            a.rng, b.rng = TwinRng(dr, 4 * nw), TwinRng(dr, 4 * nw)
            b.max_attempts = a.max_attempts
            a.advance(1)
            b.advance(1)
            h.eq("after advance(1): samples", b.get_sample(), a.get_sample())
            h.eq("after advance(1): log-probabilities", b.get_probabilities(), a.get_probabilities())
            h.same("after advance(1): chain_length", int(b.chain_length), int(a.chain_length))
    finally:
        _cleanup(tmp)
