"""C20 — conditional approximation: sampling from tabulated 1-D conditionals (claimed in part)"""
import numpy as np
import z3

from symnp import stubs
from symnp.core import ozeros, forking, R
from symnp.harness import unit

EXPLANATION = (
    "PART OF THE PROPERTY ONLY.  piecewise_linear_sample, trapezium_transform / trapezium_full / trapezium_near_zero "
    "are executed on a symbolic strictly ascending (non-uniform) grid, a symbolic non-negative table and symbolic "
    "uniforms, with the module's generator replaced by a recorder of the weight vector handed to choice(). Asserted: the "
    "cell weights are proportional to the cell masses (p_k + p_k+1)(x_k+1 - x_k)/2 of the piecewise-linear interpolant "
    "(for uniform and non-uniform grids alike); trapezium_transform(u, d) returns t in [0,1] with d t^2 + (1-d) t == u on "
    "the exact branch and |d t^2 + (1-d) t - u| <= 1e-9 on the |d| < 1e-5 branch; every sample lies inside the cell that "
    "was drawn, hence inside [x_0, x_last], so conditional_sample columns stay inside the axes returned by "
    "get_conditionals. NOT claimed: that evaluate_conditional / get_conditionals cover the region above threshold and "
    "match the true conditional (data-dependent search over an arbitrary function, unimodality premise) - outside reach."
    " Conditional unit: the object through which get_conditionals evaluates every grid point returns, for an arbitrary (uninterpreted) posterior, the posterior at the conditioning point with only the current variable replaced, across re-pointing from variable to variable and back, and never changes the caller's conditioning point."
    " Also executed: get_conditionals up to the hand-over to evaluate_conditional (the search points span the bounds, contain the conditioning coordinate and the function searched is the right conditional); the bisection of the threshold search for a bounded number of iterations on an uninterpreted function (result unchanged by an additive constant of the log-density, inside the bracket, within the absolute tolerance when stopped early); trapezium_transform on mixtures of flat and sloped cells (entry k solves entry k's own quadratic). Still not claimed: that the refined grid of evaluate_conditional covers the region above threshold for an arbitrary function."
)
BOUNDS = {"quick": "tables of 2..3 cells, 1..2 samples", "thorough": "4 cells, 2 samples"}
ASSUMPTIONS = [
    "inverse-CDF sampling of a linear density through the quadratic d t^2 + (1-d) t = u is exact (textbook; trusted)",
    "cells with zero total mass (both end values 0) are excluded (0/0 in the code's slope computation)",
    "floats as reals: the 1e-9 tolerance of the near-zero branch is the real-arithmetic series remainder",
]


def _mod(h):
    import inference.approx.conditional as cd
    h.patch(cd, zeros=ozeros, float=stubs.FloatLike, float64=stubs.FloatLike)
    h.covers(cd.piecewise_linear_sample, cd.trapezium_transform, cd.trapezium_full, cd.trapezium_near_zero)
    return cd


def _grid(h, cells):
    x0 = h.real("x0")
    dxs = h.real("dx", cells, pos=True)
    xs = [x0]
    for k in range(cells):
        xs.append(xs[-1] + dxs[k])
    dt = object if h.sym else float
    x = np.array(xs, dtype=dt)
    p = h.real("p", cells + 1, nonneg=True)
    return x, p, dxs


class RecRng:
    def __init__(self, h):
        self.h = h
        self.weights = None
        self.inds = None
        self.us = None

    def choice(self, n, size=None, p=None):
        self.weights = np.asarray(p).copy()
        self.inds = np.array([self.h.choice_int("cell", 0, n - 1) for _ in range(size)])
        return self.inds

    def random(self, size=None):
        dt = object if self.h.sym else float
        self.us = np.array([self.h.real(f"u{k}", lo=0, hi=1) for k in range(size)], dtype=dt)
        return self.us


@unit("C20", quick=[dict(cells=2, ns=1), dict(cells=3, ns=1)], thorough=[dict(cells=4, ns=2), dict(cells=3, ns=2)], max_paths=4000, cost=4)
def weights_proportional_to_cell_mass_and_samples_in_cell(h, cells, ns):
    cd = _mod(h)
    x, p, dxs = _grid(h, cells)
    rng = RecRng(h)
    h.patch(cd, both=True, rng=rng)
    xin, pin = (forking(x), forking(p)) if h.sym else (x, p)
    if h.sym:
        for k in range(cells):
            h.ctx.side.append(R(p[k] + p[k + 1]) > 0)
    out = cd.piecewise_linear_sample(xin, pin, ns)
    out = np.asarray(out).view(np.ndarray)
    mass = np.array([0.5 * (p[k] + p[k + 1]) * (x[k + 1] - x[k]) for k in range(cells)], dtype=object if h.sym else float)
    w = np.asarray(rng.weights).view(np.ndarray)
    h.eq("weights sum to one", w.sum(), 1.0)
    for k in range(cells):
        h.eq(f"weight[{k}] * total mass == mass of cell {k}", w[k] * mass.sum(), mass[k])
    for s in range(ns):
        k = int(rng.inds[s])
        h.ge(f"sample {s} >= left end of its cell", out[s], x[k])
        h.le(f"sample {s} <= right end of its cell", out[s], x[k + 1])
        h.ge(f"sample {s} >= x_0", out[s], x[0])
        h.le(f"sample {s} <= x_last", out[s], x[-1])
        # the sample solves the inverse-CDF equation of the linear density on its cell
        t = (out[s] - x[k]) / (x[k + 1] - x[k])
        dl = (p[k + 1] - p[k]) / (p[k + 1] + p[k])
        h.le(f"sample {s}: | d t^2 + (1-d) t - u | <= 1e-9", abs(dl * t * t + (1 - dl) * t - rng.us[s]), 1e-9, tol=1e-7)


@unit("C20", quick=[dict(branch="full"), dict(branch="near_zero")], timeout_ms=60000)
def trapezium_transform_solves_the_quadratic(h, branch):
    cd = _mod(h)
    u = h.real("u", lo=0, hi=1)
    if branch == "full":
        d = h.real("d", lo=-1, hi=1)
        h.assume((d >= 1e-5) | (d <= -1e-5), "|d| >= 1e-5 (exact branch)")
    else:
        d = h.real("d", lo=-1e-5, hi=1e-5, lo_strict=True, hi_strict=True)
    dt = object if h.sym else float
    ua, da = np.array([u], dtype=dt), np.array([d], dtype=dt)
    if h.sym:
        ua, da = forking(ua), forking(da)
    t = np.asarray(cd.trapezium_transform(ua, da)).view(np.ndarray)[0]
    h.ge("t >= 0", t, 0.0)
    h.le("t <= 1", t, 1.0)
    res = d * t * t + (1 - d) * t - u
    if branch == "full":
        h.eq("d t^2 + (1-d) t == u", res, 0.0 * u)
    else:
        h.le("| d t^2 + (1-d) t - u | <= 1e-9", abs(res), 1e-9, tol=1e-7)


@unit("C20", quick=[dict(d=2), dict(d=3)])
def conditional_evaluates_the_posterior_through_the_conditioning_point(h, d):
    """the object get_conditionals evaluates every grid point through: for an arbitrary posterior and conditioning point,
    re-pointed from variable to variable the way get_conditionals does (and back), every call returns the posterior at the
    conditioning point with only the current variable replaced; the caller's conditioning point is never changed"""
    cd = _mod(h)
    h.covers(cd.Conditional.__init__, cd.Conditional.__call__)
    dt = object if h.sym else float
    F = h.ufunc("logpost", d)
    calls = []

    def post(t):
        t = np.asarray(t)
        calls.append(np.array(t, dtype=dt))
        return F(t)
    theta = h.real("theta", d)
    point = np.array(theta, dtype=dt)
    c = cd.Conditional(posterior=post, theta=point, variable_index=0)
    order = list(range(d)) + [0, d - 1]
    for step, i in enumerate(order):
        c.variable_index = i
        for rep in range(2):
            x = h.real(f"x{step}_{rep}")
            want = np.array(theta, dtype=dt)
            want[i] = x
            val = c(x)
            h.eq(f"step {step}.{rep} (variable {i}): value == posterior(conditioning point with x in place {i})", val, F(want))
            h.eq(f"step {step}.{rep} (variable {i}): the posterior was evaluated at that point", calls[-1], want)
            h.eq(f"step {step}.{rep}: caller's conditioning point unchanged", point, np.array(theta, dtype=dt))


@unit("C20", quick=[dict(d=1), dict(d=2)], max_paths=4000, cost=5)
def search_grid_spans_the_bounds_and_contains_the_conditioning_point(h, d):
    """get_conditionals up to the hand-over to evaluate_conditional (which is replaced by a recorder: a cut, the
    threshold search itself stays outside reach): for symbolic bounds and a conditioning coordinate anywhere inside them
    (on a search point, between two, in the first or the last cell), the points handed to the search are ascending, start at
    the lower bound, end at the upper bound and contain the conditioning coordinate -- necessary for the returned axis to
    cover the region above threshold on both sides of the conditioning point -- and the function handed over is the
    conditional of the right variable through the conditioning point"""
    cd = _mod(h)
    h.covers(cd.get_conditionals)
    dt = object if h.sym else float
    F = h.ufunc("logpost", d)
    lo = h.real("lo", d)
    wd = h.real("wd", d, pos=True)
    frac = [h.real("f0", lo=0, hi=1)] + [0.0 * wd[k] for k in range(1, d)]   # later variables sit on their lower bound
    theta = np.array([lo[k] + frac[k] * wd[k] for k in range(d)], dtype=dt)
    bounds = [(lo[k], lo[k] + wd[k]) for k in range(d)]
    seen = []

    def rec(func, points, grid_size=64, **kw):
        pts = np.array(points, dtype=dt).copy()
        x = h.real(f"probe{len(seen)}")
        seen.append((pts, func(x), x))
        z = np.array([0.0 * wd[0]] * grid_size, dtype=dt) if h.sym else np.zeros(grid_size)
        return z, z
    h.patch(cd, both=True, evaluate_conditional=rec)
    point0 = np.array(theta, dtype=dt).copy()
    cd.get_conditionals(posterior=lambda t: F(np.asarray(t)), bounds=bounds, conditioning_point=theta, grid_size=4)
    h.same("one search per variable", len(seen), d)
    for k, (pts, val, x) in enumerate(seen[:d]):
        h.eq(f"variable {k}: search starts at the lower bound", pts[0], lo[k])
        h.eq(f"variable {k}: search ends at the upper bound", pts[-1], lo[k] + wd[k])
        for a, b in zip(pts[:-1], pts[1:]):
            h.le(f"variable {k}: search points ascending", a, b)
        if h.sym:
            from symnp.core import R, SymBool
            h.true(f"variable {k}: the conditioning coordinate is one of the search points", SymBool(z3.Or(*[R(p) == R(theta[k]) for p in pts])))
        else:
            h.true(f"variable {k}: the conditioning coordinate is one of the search points", bool(np.any(np.asarray(pts) == theta[k])))
        want = np.array(point0, dtype=dt)
        want[k] = x
        h.eq(f"variable {k}: the function searched is the conditional through the conditioning point", val, F(want))
    h.eq("caller's conditioning point unchanged", theta, point0)


@unit("C20", quick=[dict(itr=3)], thorough=[dict(itr=5)], max_paths=6000, cost=4)
def threshold_search_ignores_an_additive_constant_of_the_log_density(h, itr):
    """the bisection that locates where the conditional falls below the threshold (the only search evaluate_conditional
    uses), run for up to `itr` iterations on an arbitrary function: a log-posterior is defined up to an additive constant,
    so shifting the function values, the bracket values and the target by the same constant c must not change the point
    returned, nor the points at which the function is evaluated; the returned point lies inside the bracket and -- when
    the search stopped early -- within the tolerance of the target"""
    cd = _mod(h)
    h.covers(cd.binary_search)
    g = h.ufunc("g", 1)
    c = h.real("c")
    x1 = h.real("x1")
    x2 = x1 + h.real("dx", pos=True)
    y1, y2 = g(np.array([x1])), g(np.array([x2]))
    target = h.real("target")
    if h.sym:
        h.ctx.side.append(z3.Or(z3.And(R(y1) < R(target), R(target) < R(y2)), z3.And(R(y2) < R(target), R(target) < R(y1))))
    elif not ((y1 < target < y2) or (y2 < target < y1)):
        from symnp.harness import ReplayMismatch
        raise ReplayMismatch("bracket does not straddle the target")
    dt = object if h.sym else float
    seen_a, seen_b = [], []

    def fa(x):
        seen_a.append(x)
        return g(np.array([x], dtype=dt))

    def fb(x):
        seen_b.append(x)
        return g(np.array([x], dtype=dt)) + c
    ra = cd.binary_search(fa, target, np.array([x1, x2], dtype=dt), np.array([y1, y2], dtype=dt), max_itr=itr)
    rb = cd.binary_search(fb, target + c, np.array([x1, x2], dtype=dt), np.array([y1 + c, y2 + c], dtype=dt), max_itr=itr)
    h.same("same number of evaluations with and without the constant", len(seen_b), len(seen_a))
    h.eq("same point returned with and without the constant", rb, ra)
    h.ge("returned point inside the bracket (lower)", ra, x1)
    h.le("returned point inside the bracket (upper)", ra, x2)
    if len(seen_a) < itr:
        h.le("stopped early only within the default tolerance 0.05 of the target", abs(g(np.array([ra], dtype=dt)) - target), 0.05)


@unit("C20", quick=[dict(pattern="SFS"), dict(pattern="FSS")], thorough=[dict(pattern="SFSF")], max_paths=2000, cost=3, timeout_ms=60000)
def trapezium_transform_pairs_every_offset_with_its_own_cell(h, pattern):
    """a batch of uniforms whose cells are a mixture of flat cells (F: |dh| < 1e-5, series branch) and sloped cells (S: exact
    branch), in any order: entry k of the result must solve the quadratic of entry k's own (u_k, dh_k) -- the in-cell offsets
    are paired element-wise with the cells that were drawn"""
    cd = _mod(h)
    dt = object if h.sym else float
    us, ds = [], []
    for k, c in enumerate(pattern):
        us.append(h.real(f"u{k}", lo=0, hi=1))
        if c == "F":
            ds.append(h.real(f"d{k}", lo=-1e-5, hi=1e-5, lo_strict=True, hi_strict=True))
        else:
            dk = h.real(f"d{k}", lo=-1, hi=1)
            h.assume((dk >= 1e-5) | (dk <= -1e-5), "|d| >= 1e-5 for the sloped cells")
            ds.append(dk)
    ua, da = np.array(us, dtype=dt), np.array(ds, dtype=dt)
    if h.sym:
        ua, da = forking(ua), forking(da)
    t = np.asarray(cd.trapezium_transform(ua, da)).view(np.ndarray)
    h.same("one offset per uniform", t.shape, (len(pattern),))
    for k, c in enumerate(pattern):
        res = ds[k] * t[k] * t[k] + (1 - ds[k]) * t[k] - us[k]
        if c == "S":
            h.eq(f"entry {k} (sloped): d t^2 + (1-d) t == u for its own (u, d)", res, 0.0 * us[k])
        else:
            h.le(f"entry {k} (flat): | d t^2 + (1-d) t - u | <= 1e-9 for its own (u, d)", abs(res), 1e-9, tol=1e-7)
        h.ge(f"entry {k} >= 0", t[k], 0.0)
        h.le(f"entry {k} <= 1", t[k], 1.0)
