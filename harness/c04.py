"""C04 — parameter limits are never violated"""
import numpy as np
import z3

from symnp import stubs
from symnp.core import SymReal, R
from symnp.harness import unit

EXPLANATION = (
    "Bounds.reflect / reflect_momenta, Parameter.boundary_proposal / abs_proposal and the Parameter limit "
    "setters are executed with symbolic theta (any real: arbitrary overshoot), symbolic lower<upper, sigma and "
    "random draws. Asserted: result inside the closed limits; identity on the allowed region; the fold is even "
    "about both walls and 2w-periodic; the HMC momentum factor is +-1 and equals the slope of the fold "
    "(flipped exactly for an odd number of folds); every sequence of <=N setter calls leaves the documented "
    "limits in force for the next proposal; for PcaChain / HamiltonianChain / EnsembleSampler / GibbsChain one "
    "transition with a recording uninterpreted posterior (and gradient): every recorded evaluation point and the "
    "stored sample lie inside the limits."
    ' Both kinds of limit in force together (their common interval); limits given at construction survive save/load; the momentum reversal inside bounded trajectories (shared with C07).'
)
BOUNDS = {"quick": "dimension <=2, setter sequences <=3 calls, <=2 retries / 2 leapfrog steps per transition",
          "thorough": "dimension <=3, setter sequences <=4 calls, <=3 retries / 3 leapfrog steps"}
ASSUMPTIONS = [
    "real arithmetic: the property's 'few ulps' allowance is only exercised on replay",
    "floor quotients are encoded as integer unknowns q with q*w <= a < (q+1)*w (exact floor)",
    "when boundaries and non-negativity are both in force the lower boundary is assumed >= 0 (no documented semantics otherwise)",
]


def _mk_bounds(h, d):
    import inference.mcmc.utilities as ut
    h.patch(ut, np_divmod=stubs.np_divmod)
    h.covers(ut.Bounds.__init__, ut.Bounds.reflect, ut.Bounds.reflect_momenta, ut.Bounds.inside)
    lo = h.real("lo", d)
    w = h.real("w", d, pos=True)
    up = lo + w
    return ut, ut.Bounds(lo, up), lo, up, w


@unit("C04", quick=[dict(d=1), dict(d=2)], thorough=[dict(d=3)])
def reflect_inside_and_identity(h, d):
    ut, B, lo, up, w = _mk_bounds(h, d)
    th = h.real("th", d)
    out = B.reflect(th)
    h.ge("reflect>=lower", out, lo)
    h.le("reflect<=upper", out, up)
    out2, refl = B.reflect_momenta(th)
    h.eq("reflect_momenta.position==reflect", out2, out)
    h.true("reflection is +-1", [(r == 1) | (r == -1) for r in refl])
    # identity on the allowed region
    inside = h.real("in", d, lo=0, hi=1)
    th_in = lo + inside * w
    h.eq("identity inside", B.reflect(th_in), th_in)
    o3, r3 = B.reflect_momenta(lo + h.real("in2", d, lo=0, hi=1, hi_strict=True) * w)
    h.eq("no momentum flip inside", r3, np.ones(d))


@unit("C04", quick=[dict(d=1, which="lower"), dict(d=1, which="upper"), dict(d=1, which="period")],
      thorough=[dict(d=2, which="lower"), dict(d=2, which="upper"), dict(d=2, which="period")], floor_lemmas=True)
def reflect_is_symmetric_fold(h, d, which):
    ut, B, lo, up, w = _mk_bounds(h, d)
    th = h.real("th", d)
    a = B.reflect(th)
    other = {"lower": 2 * lo - th, "upper": 2 * up - th, "period": th + 2 * w}[which]
    b = B.reflect(other)
    h.eq(f"fold even/periodic ({which})", a, b)


@unit("C04", quick=[dict(d=1), dict(d=2)], thorough=[dict(d=3)])
def momentum_factor_is_fold_slope(h, d):
    ut, B, lo, up, w = _mk_bounds(h, d)
    th = h.real("th", d)
    if not h.sym:
        # keep the finite-difference stencil inside one cell of the fold
        q, rem = np.divmod(th - lo, w)
        h.assume(bool(np.all((rem > 1e-3 * w) & (rem < (1 - 1e-3) * w))), "replay point away from a fold edge")
    out, refl = B.reflect_momenta(th)
    for i in range(d):
        g = [refl[i] if j == i else 0 * refl[i] for j in range(d)]
        h.is_gradient(f"d reflect[{i}]/d theta == reflection", lambda t, i=i: B.reflect_momenta(t)[0][i], th, np.array(g, dtype=object if h.sym else float))


def _param(h, with_rng=True):
    import inference.mcmc.gibbs as gb
    h.covers(gb.Parameter.__init__, gb.Parameter.set_boundaries, gb.Parameter.remove_boundaries,
             gb.Parameter.standard_proposal, gb.Parameter.abs_proposal, gb.Parameter.boundary_proposal)
    cur = h.real("cur")
    sig = h.real("sigma", pos=True)
    p = gb.Parameter(value=cur, sigma=sig)
    p.rng = stubs.SymRng(h, "prng")
    return gb, p, cur, sig


@unit("C04", floor_lemmas=True)
def boundary_proposal_fold(h):
    gb, p, cur, sig = _param(h)
    a = h.real("a")
    w = h.real("w", pos=True)
    b = a + w
    p.set_boundaries(a, b)
    out = p.proposal()
    raw = cur + sig * p.rng.log[-1][1]
    h.ge("boundary_proposal>=lower", out, a)
    h.le("boundary_proposal<=upper", out, b)
    inside = (raw >= a) & (raw <= b)
    h.eq("identity when the raw draw is inside", out, h.ite(inside, raw, out))
    # evenness about both walls and periodicity: a second parameter whose raw draw is the mirror image
    for tag, mirror in (("lower", lambda r: 2 * a - r), ("upper", lambda r: 2 * b - r), ("period", lambda r: r + 2 * w)):
        p2 = gb.Parameter(value=mirror(cur), sigma=sig)
        p2.set_boundaries(a, b)

        class _R:
            def normal(self, loc, scale, z=p.rng.log[-1][1], tag=tag):
                return loc + scale * (z if tag == "period" else -z)
        p2.rng = _R()
        h.eq(f"fold symmetric ({tag})", p2.proposal(), out)


@unit("C04")
def abs_proposal_fold(h):
    gb, p, cur, sig = _param(h)
    p.non_negative = True
    out = p.proposal()
    raw = cur + sig * p.rng.log[-1][1]
    h.ge("abs_proposal>=0", out, 0)
    h.eq("identity when raw>=0", out, h.ite(raw >= 0, raw, out))
    h.eq("even about 0", out, abs(-raw))


OPS = ["set", "remove", "nn_on", "nn_off", "set_refused"]


@unit("C04", quick=[dict(n=1), dict(n=2), dict(n=3)], thorough=[dict(n=4)], max_paths=4000)
def limit_setter_sequences(h, n):
    """all sequences of n calls; then one proposal must respect every limit still in force"""
    gb, p, cur, sig = _param(h)
    h.covers(type(p).non_negative.fset)
    bounded, nonneg, lim = False, False, None
    for k in range(n):
        op = h.choice(f"op{k}", OPS)
        if op == "set":
            a = h.real(f"a{k}")
            w = h.real(f"w{k}", pos=True)
            p.set_boundaries(a, a + w)
            bounded, lim = True, (a, a + w)
        elif op == "set_refused":
            # limits the wrong way round: the library refuses the call (warning) -- whatever was in force stays in force
            a = h.real(f"ra{k}")
            w = h.real(f"rw{k}", pos=True)
            p.set_boundaries(a + w, a)
        elif op == "remove":
            p.remove_boundaries()
            bounded, lim = False, None
        elif op == "nn_on":
            p.non_negative = True
            nonneg = True
        else:
            p.non_negative = False
            nonneg = False
    if bounded and nonneg:
        h.assume(lim[1] > 0, "when boundaries and non-negativity are both in force they have a common interval (upper boundary > 0)")
    out = p.proposal()
    if bounded:
        h.ge("boundaries in force: >=lower", out, lim[0])
        h.le("boundaries in force: <=upper", out, lim[1])
    if nonneg:
        h.ge("non-negativity in force", out, 0)
    if not bounded and not nonneg:
        raw = cur + sig * p.rng.log[-1][1]
        h.eq("no limit: raw proposal", out, raw)


# ---------------------------------------------------------------------------------------------
# one transition of each sampler with limits in force: every evaluation point and the stored
# sample must be inside the limits
# ---------------------------------------------------------------------------------------------
from harness import mcmc_common as mc  # noqa: E402


def _box(h, d):
    lo = h.real("lo", d)
    w = h.real("w", d, pos=True)
    return lo, lo + w


def _all_inside(h, tag, events, lo, up, kinds=("L", "G")):
    k = 0
    for e in events:
        if e[0] in kinds:
            k += 1
            h.ge(f"{tag}: evaluation point #{k} ({e[0]}) >= lower", e[1], lo)
            h.le(f"{tag}: evaluation point #{k} ({e[0]}) <= upper", e[1], up)


@unit("C04", quick=[dict(d=1, retries=2), dict(d=2, retries=1)], thorough=[dict(d=2, retries=2), dict(d=3, retries=1)])
def pca_step_inside_bounds(h, d, retries):
    ev = mc.Events()
    lo, up = _box(h, d)
    pca, chain, post, T, pts = mc.make_pca(h, d, ev, bounds=(lo, up), max_draws=d * (retries + 1))
    h.covers(pca.PcaChain.take_step, pca.PcaChain.__init__)
    del ev[:]
    chain.take_step()
    _all_inside(h, "pca", ev, lo, up)
    last = chain.get_last()
    h.ge("pca stored sample >= lower", last, lo)
    h.le("pca stored sample <= upper", last, up)


@unit("C04", quick=[dict(d=1, retries=2), dict(d=2, retries=1)], thorough=[dict(d=2, retries=2)])
def gibbs_step_inside_limits(h, d, retries):
    """GibbsChain with set_boundaries on parameter 0 and non-negativity on the last one"""
    ev = mc.Events()
    gb, chain, post, T, pts = mc.make_metropolis_like(h, "gibbs", d, ev, max_draws=retries + 1)
    h.covers(gb.GibbsChain.take_step, gb.MetropolisChain.set_boundaries, gb.MetropolisChain.set_non_negative)
    a = h.real("a")
    w = h.real("w", pos=True)
    chain.set_boundaries(0, (a, a + w))
    if d > 1:
        chain.set_non_negative(d - 1)
    del ev[:]
    chain.take_step()
    k = 0
    for e in ev:
        if e[0] == "L":
            k += 1
            # only the coordinate being updated has passed through the limiter; earlier coordinates
            # hold accepted (limited) values, later ones the previous sample
            h.ge(f"gibbs evaluation #{k}: theta[0] >= lower or not yet updated", e[1][0], h.ite(e[1][0] == pts[-1][0], e[1][0], a))
            h.le(f"gibbs evaluation #{k}: theta[0] <= upper or not yet updated", e[1][0], h.ite(e[1][0] == pts[-1][0], e[1][0], a + w))
            if d > 1:
                h.ge(f"gibbs evaluation #{k}: theta[-1] >= 0 or not yet updated", e[1][d - 1], h.ite(e[1][d - 1] == pts[-1][d - 1], e[1][d - 1], 0))
    last = chain.get_last()
    h.ge("gibbs stored sample[0] >= lower", last[0], a)
    h.le("gibbs stored sample[0] <= upper", last[0], a + w)
    if d > 1:
        h.ge("gibbs stored sample[-1] >= 0", last[d - 1], 0)


@unit("C04", quick=[dict(d=1, nw=2), dict(d=2, nw=3, via="walker")], thorough=[dict(d=1, nw=3), dict(d=2, nw=4, via="walker")], max_paths=6000, cost=6)
def ensemble_step_inside_bounds(h, d, nw, via="advance"):
    ev = mc.Events()
    lo, up = _box(h, d)
    en, s, post, alpha, X = mc.make_ensemble(h, d, nw, ev, bounds=(lo, up), max_attempts=1)
    h.covers(en.EnsembleSampler.advance, *mc.priv(en.EnsembleSampler, "_EnsembleSampler__proposal", "_EnsembleSampler__advance_walker"))
    del ev[:]
    s.failed_updates = [] if via == "advance" else [0]   # advance() opens a counter per iteration itself
    if via == "advance":
        s.advance(1)     # one iteration of the whole ensemble through the public entry point
    else:                # larger instances: the update of one arbitrary walker (located by purpose, see mcmc_common.find_method)
        mc.find_method(s, ("walker",), "the single-walker update")(h.choice_int("walker", 0, nw - 1))
    _all_inside(h, "ensemble", ev, lo, up)
    h.ge("ensemble walkers >= lower", s.walker_positions, lo[None, :])
    h.le("ensemble walkers <= upper", s.walker_positions, up[None, :])


@unit("C04", quick=[dict(d=1, steps=2, mass="scalar"), dict(d=2, steps=1, mass="vector")],
      thorough=[dict(d=2, steps=2, mass="vector"), dict(d=2, steps=2, mass="matrix"), dict(d=3, steps=1, mass="scalar")])
def hmc_step_inside_bounds(h, d, steps, mass):
    ev = mc.Events()
    lo, up = _box(h, d)
    hmc, chain, post, grad, T, start, eps, im = mc.make_hmc(h, d, ev, mass=mass, bounds=(lo, up), steps=steps, max_draws=d + 2)
    h.covers(hmc.HamiltonianChain.take_step, hmc.HamiltonianChain.bounded_leapfrog)
    del ev[:]
    chain.max_attempts = 1
    h.allow(ValueError)  # 'failed to take step within maximum allowed attempts'
    chain.take_step()
    _all_inside(h, "hmc", ev, lo, up)
    h.ge("hmc stored sample >= lower", chain.theta[-1], lo)
    h.le("hmc stored sample <= upper", chain.theta[-1], up)


@unit("C04", quick=[dict(d=1), dict(d=2)])
def hmc_finite_difference_inside_bounds(h, d):
    """no gradient supplied: the internal finite-difference estimate must also evaluate the
    posterior inside the box (allowance: 4 ulp-scale = 1e-12 relative to the box scale)"""
    ev = mc.Events()
    lo, up = _box(h, d)
    hmc, chain, post, grad, T, start, eps, im = mc.make_hmc(h, d, ev, bounds=(lo, up), steps=1, use_grad=False)
    h.covers(hmc.HamiltonianChain.finite_diff)
    del ev[:]
    t = lo + h.real("tf", d, lo=0, hi=1) * (up - lo)
    chain.finite_diff(t)
    scale = abs(lo) + abs(up)
    k = 0
    for e in ev:
        if e[0] == "L":
            k += 1
            h.ge(f"finite_diff evaluation #{k} >= lower - tol", e[1], lo - 1e-12 * scale)
            h.le(f"finite_diff evaluation #{k} <= upper + tol", e[1], up + 1e-12 * scale)


@unit("C04", quick=[dict(d=1, n=2, mass="scalar"), dict(d=2, n=1, mass="vector")], families=1, floor_fork=(-1, 1), cost=4)
def hmc_momentum_is_reversed_with_every_fold_of_the_trajectory(h, d, n, mass):
    """'for Hamiltonian trajectories the momentum component is reversed exactly when its coordinate was folded an odd
    number of times', at every step of the trajectory including the last one: a missing or misplaced reversal shows as a
    trajectory that does not retrace itself.  Same execution of the real bounded_leapfrog as C07's reversibility unit"""
    from harness import c07
    c07.leapfrog_is_reversible(h, d, n, mass, True)


@unit("C04", quick=[dict(cls="pca"), dict(cls="hmc"), dict(cls="ensemble")], max_paths=4000, cost=5)
def limits_given_at_construction_survive_save_and_load(h, cls):
    """'while a limit is in force (bounds given at construction)': a sampler reloaded from its save file is still the
    sampler with those limits -- same bounds, and the proposal / trajectory processing that enforces them selected.  Same
    execution of the real save / load code as C09's units (bounded variants), asserted here for C04"""
    from harness import c09
    if cls == "pca":
        c09.pca_save_load_continue(h, 2, True, 2, False)
    elif cls == "hmc":
        c09.hmc_save_load_continue(h, 2, "vector", True)
    else:
        c09.ensemble_save_load_continue(h, 1, 2, True, False)
