"""shared builders: samplers of inference.mcmc placed in an arbitrary (symbolic) valid state,
with the random generators replaced by recording symbolic generators and the posterior by a
recording uninterpreted function."""
import numpy as np

from symnp import funcs, stubs
from symnp.core import ozeros
from symnp.stubs import SymRng


class Events(list):
    def kinds(self):
        return "".join(e[0] for e in self)


class EvRng(SymRng):
    def __init__(self, h, tag, events, max_draws=None):
        super().__init__(h, tag, max_draws)
        self.events = events

    def _next(self, kind, **kw):
        v = super()._next(kind, **kw)
        self.events.append((kind, self.tag, v))
        return v


def recording_posterior(h, d, events, name="L", family=None):
    f = h.ufunc(name, d, family=family)

    def post(theta):
        th = np.array(theta, dtype=object if h.sym else float).copy()
        v = f(th)
        events.append(("L", th, v))
        return v
    post.uf = f
    return post


def recording_gradient(h, d, events, name="L", family=None):
    """gradient field = the partial-derivative symbols of the potential `name`"""
    gs = [h.ufunc(f"{name}_d{i}", d, family=[fam[i] for fam in family] if family else None) for i in range(d)]

    def grad(theta):
        th = np.array(theta, dtype=object if h.sym else float).copy()
        g = np.array([gi(th) for gi in gs], dtype=object if h.sym else float)
        events.append(("G", th, g))
        return g
    return grad


# smooth concrete potentials used when a replay needs a *function* rather than a value table
def potential_family(d):
    def L0(*t):
        return -0.5 * sum((k + 1) * x * x for k, x in enumerate(t)) + 0.3 * np.sin(sum(t)) - 0.05 * sum(x ** 4 for x in t)

    def dL0(i):
        def g(*t):
            return -(i + 1) * t[i] + 0.3 * np.cos(sum(t)) - 0.2 * t[i] ** 3
        return g
    return [L0], [[dL0(i) for i in range(d)]]


def patch_gibbs(h):
    import inference.mcmc.gibbs as gb
    h.patch(gb, float64=object, isfinite=funcs.isfinite)
    return gb


def make_metropolis_like(h, cls, d, events, hist=1, temperature=True, max_draws=None, widths=None):
    """GibbsChain / MetropolisChain built by the real constructor on a symbolic start, then given
    `hist` stored points satisfying the invariant probs[k] = L(sample_k)/T."""
    gb = patch_gibbs(h)
    C = {"gibbs": gb.GibbsChain, "metropolis": gb.MetropolisChain}[cls]
    post = recording_posterior(h, d, events)
    T = h.real("T", pos=True) if temperature else 1.0
    start = h.real("s0", d)
    w = h.real("sig", d, pos=True) if widths is None else widths
    chain = C(posterior=post, start=start, widths=w, temperature=T, display_progress=False)
    chain.rng = EvRng(h, "crng", events, max_draws)
    for i, p in enumerate(chain.params):
        p.rng = EvRng(h, f"prng{i}", events, max_draws)
    pts = [start]
    for k in range(1, hist):
        pt = h.real(f"s{k}", d)
        pts.append(pt)
        for p, v in zip(chain.params, pt):
            p.samples.append(v)
        chain.probs.append(post(pt) * chain.inv_temp)
        chain.chain_length += 1
    return gb, chain, post, T, pts


def make_pca(h, d, events, hist=1, temperature=True, bounds=None, directions=None, max_draws=None):
    import inference.mcmc.pca as pca
    import inference.mcmc.utilities as ut
    gb = patch_gibbs(h)
    h.patch(pca, zeros=_fzeros)
    h.patch(ut, np_divmod=stubs.np_divmod)
    post = recording_posterior(h, d, events)
    T = h.real("T", pos=True) if temperature else 1.0
    start = h.real("s0", d) if bounds is None else bounds[0] + h.real("s0f", d, lo=0, hi=1) * (bounds[1] - bounds[0])
    w = h.real("sig", d, pos=True)
    chain = pca.PcaChain(posterior=post, start=start, widths=w, temperature=T, display_progress=False,
                         bounds=None if bounds is None else (bounds[0], bounds[1]))
    chain.rng = EvRng(h, "crng", events, max_draws)
    if directions is not None:
        chain.directions = directions
    pts = [start]
    return pca, chain, post, T, pts


def _fzeros(shape, dtype=None, **kw):
    return np.zeros(shape)


class RecordingES:
    """stand-in for EpsilonSelector in transition checks (adaptation statistics are not the
    subject there); the real class is exercised by the C09 harness"""

    def __init__(self, epsilon):
        self.epsilon = epsilon
        self.probs = []

    def add_probability(self, p):
        self.probs.append(p)


def make_hmc(h, d, events, mass="scalar", bounds=None, temperature=True, steps=1, use_grad=True, family=None,
             max_draws=None, real_es=False):
    import inference.mcmc.hmc as hmc
    import inference.mcmc.hmc.mass as ms
    import inference.mcmc.utilities as ut
    h.patch(hmc, float64=object, isfinite=funcs.isfinite, zeros=ozeros)
    h.patch(ut, np_divmod=stubs.np_divmod)
    from symnp.core import SymReal as _SR
    h.patch(ms, cholesky=stubs.cholesky, solve_triangular=stubs.solve_triangular, isscalar=lambda x: isinstance(x, _SR) or np.isscalar(x))
    fam, dfam = family if family else (None, None)
    post = recording_posterior(h, d, events, family=fam)
    grad = recording_gradient(h, d, events, family=dfam) if use_grad else None
    T = h.real("T", pos=True) if temperature else 1.0
    if bounds is None:
        start = h.real("s0", d)
    else:
        start = bounds[0] + h.real("s0f", d, lo=0, hi=1) * (bounds[1] - bounds[0])
    eps = h.real("eps", pos=True)
    if mass == "scalar":
        im = h.real("im", pos=True)
        ctor_im = None
    elif mass == "vector":
        im = h.real("im", d, pos=True)
        ctor_im = im
    else:
        Lm = ozeros((d, d)) if h.sym else np.zeros((d, d))
        for i in range(d):
            for j in range(i + 1):
                Lm[i, j] = h.real(f"Lm_{i}_{j}", pos=(i == j))
        im = Lm @ Lm.T
        ctor_im = im
        if h.sym:  # Cholesky by contract: returns the factor the matrix was built from (certified)
            h.patch(ms, cholesky=stubs.make_param_cholesky(h, Lm, "mass.cholesky"))
    chain = hmc.HamiltonianChain(posterior=post, start=start, grad=grad, epsilon=eps, temperature=T,
                                 bounds=None if bounds is None else (bounds[0], bounds[1]),
                                 inverse_mass=ctor_im, display_progress=False)
    if mass == "scalar":
        chain.mass = ms.ScalarMass(im, d)
    chain.rng = EvRng(h, "crng", events, max_draws)
    chain.steps = steps
    if not real_es:
        chain.ES = RecordingES(eps)
    # record what the trajectory integrator returns
    real_lf = chain.run_leapfrog

    def lf(t, r, n):
        t0, r0 = t.copy(), r.copy()
        t1, r1 = real_lf(t, r, n)
        events.append(("LF", (t0, r0, n), (t1.copy(), r1.copy())))
        return t1, r1
    chain.run_leapfrog = lf
    return hmc, chain, post, grad, T, start, eps, im


def make_ensemble(h, d, nw, events, bounds=None, max_attempts=2, symbolic_ctor=False):
    import inference.mcmc.ensemble as en
    import inference.mcmc.utilities as ut
    h.patch(en, isfinite=funcs.isfinite, cov=funcs.cov, float64=object)
    h.patch(ut, np_divmod=stubs.np_divmod)
    post = recording_posterior(h, d, events)
    alpha = h.real("alpha", lo=1, lo_strict=True)
    if bounds is None:
        X = h.real("X", (nw, d))
    else:
        X = bounds[0][None, :] + h.real("Xf", (nw, d), lo=0, hi=1) * (bounds[1] - bounds[0])[None, :]
    if symbolic_ctor:
        s = en.EnsembleSampler(posterior=post, starting_positions=X, alpha=alpha, display_progress=False,
                               bounds=None if bounds is None else (bounds[0], bounds[1]))
    else:
        X0 = np.array([[float((i + 1) * (j + 2) % 5) + 0.1 * i * i for j in range(d)] for i in range(nw)])
        s = en.EnsembleSampler(posterior=(lambda t: 0.0), starting_positions=X0, alpha=alpha,
                               display_progress=False, bounds=None)
        s.posterior = post
        s.walker_positions = np.array(X, dtype=object if h.sym else float).copy()
        s.walker_probs = np.array([post(x) for x in s.walker_positions], dtype=object if h.sym else float)
        if bounds is not None:
            s.bounds = ut.Bounds(bounds[0], bounds[1])
            s.process_proposal = s.bounds.reflect
    s.rng = EvRng(h, "crng", events)
    s.max_attempts = max_attempts
    s.failed_updates.append(0)  # as __advance_all does before advancing the walkers
    return en, s, post, alpha, X


class HarnessOutOfDate(AttributeError):
    """raised when the harness cannot find the internal routine it drives (the code was re-organised): reported as
    inconclusive, never as a violation"""

    def __init__(self, msg):
        super().__init__(msg)
        self.obj = HarnessOutOfDate   # classified by symnp.harness as a harness-side problem


def find_method(obj, keywords, what, nargs=1):
    import symnp.harness as _sh
    _sh.WHITEBOX["used"] = True   # this unit drives an internal routine: harness-side exceptions are not verdicts
    """the private routine a unit drives directly, located by what it is about rather than by its exact name
    (tolerates renaming such as __advance_walker -> _update_walker); public names are never matched"""
    cls = type(obj)
    hits = []
    for name in dir(cls):
        bare = name.split("__")[-1] if name.startswith("_" + cls.__name__ + "__") else name
        if not name.startswith("_") or name.startswith("__") and name.endswith("__"):
            continue
        f = getattr(cls, name, None)
        if any(k in bare.lower() for k in keywords) and callable(f):
            try:
                import inspect
                ps = [q for q in inspect.signature(f).parameters.values() if q.name != "self" and q.default is q.empty
                      and q.kind in (q.POSITIONAL_ONLY, q.POSITIONAL_OR_KEYWORD)]
                if len(ps) != nargs:
                    continue
            except (TypeError, ValueError):
                pass
            hits.append(name)
    if len(hits) != 1:
        raise HarnessOutOfDate(f"cannot identify {what} of {cls.__name__} (candidates: {hits})")
    return getattr(obj, hits[0])


def priv(cls, *names):
    """optional references for h.covers: attributes that may have been renamed are skipped"""
    return [getattr(cls, n) for n in names if hasattr(cls, n)]
