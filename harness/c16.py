"""C16 — GP derivative predictions are the derivatives of the GP prediction"""
import numpy as np
import z3

from symnp import stubs
from symnp.core import ozeros, R, SymReal
from symnp.diff import diff
from symnp.funcs import renorm
from symnp.harness import unit
from harness import gp_common as gc

EXPLANATION = (
    "GpRegressor.gradient and GpRegressor.spatial_derivatives are executed with the real SquaredExponential kernel "
    "(the only kernel with gradient_terms) and the three real mean functions, on symbolic training data, "
    "hyper-parameters and query point; the regressor is built by the real constructor with K_xx+S == L.L^T "
    "(y_cov := L.L^T - K_ref, certified inside the cholesky contract). Asserted: gradient(q)[0] and "
    "spatial_derivatives(q)[0] == d/dq_i of the mean returned by build_posterior(q) (including d m/dq of the mean "
    "function); spatial_derivatives(q)[1] == d/dq_i of the predictive variance; gradient(q)[1] == "
    "d^2 k/dq dq'|_{q'=q} - (dK_qx)(K_xx+S)^-1(dK_xq) (mixed second derivative taken of the real kernel call, solve "
    "certified), symmetric; a batched call equals the stack of single-point calls."
    ' Sums of kernels: the library either declines (NotImplementedError) or returns the true derivatives. Integer-typed query points give the values of the same points as floats.'
)
BOUNDS = {"quick": "n<=2 training points, d<=2", "thorough": "n=3 training points, d<=2"}
ASSUMPTIONS = [
    "floats as reals; cholesky / solve_triangular exact contract stubs",
    "positive semi-definiteness of the gradient covariance follows from the asserted Schur-complement closed form (trusted lemma)",
]


def _lower(h, name, n):
    L = ozeros((n, n)) if h.sym else np.zeros((n, n))
    for i in range(n):
        for j in range(i + 1):
            L[i, j] = h.real(f"{name}_{i}_{j}", pos=(i == j))
    return L


def _gp(h, n, d, mean, kernel="SE"):
    import inference.gp.regression as rg
    cv, mn = gc.patch_cov(h)
    L = _lower(h, "L", n)
    h.patch(rg, solve_triangular=stubs.solve_triangular, zeros=ozeros)
    h.patch(rg, both=True, cholesky=stubs.make_param_cholesky(h, L, "regression.cholesky"))
    h.covers(rg.GpRegressor.gradient, rg.GpRegressor.spatial_derivatives, cv.SquaredExponential.gradient_terms)
    spec = {"SE": "SE", "RQ": "RQ", "SE+SE+WN": ("sum", ["SE", "SE", "WN"]), "SE+WN": ("sum", ["SE", "WN"])}[kernel]
    K = cv.SquaredExponential(hyperpar_bounds=[(-5.0, 5.0)] * (d + 1)) if kernel == "SE" else gc.build_kernel(cv, spec)
    nk = gc.n_params(spec, n, d)
    if kernel == "RQ":
        K.bounds = [(-5.0, 5.0)] * (d + 2)
    for comp in getattr(K, "components", []):     # given bounds: the data-driven estimate is not the subject here
        comp.bounds = [(-5.0, 5.0)] * (d + 1 if isinstance(comp, cv.SquaredExponential) else 1)
    M = gc.build_mean(mn, mean)
    pm = gc.mean_n_params(mean, d)
    M.bounds = [(-5.0, 5.0)] * pm
    x = h.real("x", (n, d))
    y = h.real("y", n)
    th = np.concatenate([h.real("tm", pm), h.real("tk", nk)])
    Kref = gc.ref_call(h, spec, x, x, th[pm:], same_points=True)
    Kref = 0.5 * (Kref + Kref.T)
    gp = rg.GpRegressor(x, y, y_cov=L @ L.T - Kref, hyperpars=th, kernel=K, mean=M)
    return rg, cv, gp, x, y, th, pm, L, K


Q = [dict(mean="const", n=1, d=1), dict(mean="lin", n=2, d=1), dict(mean="const", n=2, d=2), dict(mean="quad", n=2, d=2)]
T = [dict(mean="quad", n=3, d=1), dict(mean="lin", n=3, d=2), dict(mean="lin", n=2, d=2), dict(mean="const", n=3, d=2)]


@unit("C16", quick=Q, thorough=T, cost=4)
def mean_gradient_is_derivative_of_mean(h, mean, n, d):
    rg, cv, gp, x, y, th, pm, L, K = _gp(h, n, d, mean)
    q = h.real("q", d)
    f = lambda p: gp.build_posterior(np.asarray(p)[None, :], mean_only=True)[0]  # noqa: E731
    gm, gc_ = gp.gradient(q[None, :])
    h.is_gradient("gradient(q) mean == d mean / d q", f, q, np.atleast_1d(gm))
    dm, dv = gp.spatial_derivatives(q[None, :])
    h.is_gradient("spatial_derivatives(q) mean part == d mean / d q", f, q, np.atleast_1d(dm))


@unit("C16", quick=Q, thorough=T, cost=4)
def variance_gradient_is_derivative_of_variance(h, mean, n, d):
    rg, cv, gp, x, y, th, pm, L, K = _gp(h, n, d, mean)
    q = h.real("q", d)
    fv = lambda p: gp.build_posterior(np.asarray(p)[None, :])[1][0, 0]  # noqa: E731
    dm, dv = gp.spatial_derivatives(q[None, :])
    h.is_gradient("spatial_derivatives(q) variance part == d variance / d q", fv, q, np.atleast_1d(dv))


@unit("C16", quick=[dict(n=1, d=1), dict(n=2, d=1), dict(n=2, d=2)], thorough=[dict(n=3, d=1), dict(n=3, d=2)], cost=5)
def gradient_covariance_closed_form(h, n, d):
    rg, cv, gp, x, y, th, pm, L, K = _gp(h, n, d, "const")
    q = h.real("q", d)
    qp = h.real("qp", d)
    tk = th[pm:]
    gm, G = gp.gradient(q[None, :])
    G = np.asarray(G).reshape(d, d) if np.asarray(G).size == d * d else G
    h.same("gradient covariance shape", np.asarray(G).shape, (d, d))
    # prior gradient covariance: mixed second derivative of the real kernel call at q' = q
    kfun = lambda a, b: K(np.asarray(a)[None, :], np.asarray(b)[None, :], tk)[0, 0]  # noqa: E731
    prior = np.empty((d, d), dtype=object if h.sym else float)
    dKqx = np.empty((d, n), dtype=object if h.sym else float)
    for i in range(d):
        if h.sym:
            kq = R(kfun(q, qp))
            for j in range(d):
                e = diff(diff(kq, q[i].e), qp[j].e)
                prior[i, j] = SymReal(renorm(z3.substitute(e, *[(qp[c].e, q[c].e) for c in range(d)])))
            for m in range(n):
                dKqx[i, m] = SymReal(diff(R(kfun(q, x[m])), q[i].e))
        else:
            st = 1e-4
            for j in range(d):
                def kk(a, b):
                    qa, qb = np.array(q, dtype=float), np.array(q, dtype=float)
                    qa[i] += a
                    qb[j] += b
                    return kfun(qa, qb)
                prior[i, j] = (kk(st, st) - kk(st, -st) - kk(-st, st) + kk(-st, -st)) / (4 * st * st)
            for m in range(n):
                qa, qb = np.array(q, dtype=float), np.array(q, dtype=float)
                qa[i] += st
                qb[i] -= st
                dKqx[i, m] = (kfun(qa, x[m]) - kfun(qb, x[m])) / (2 * st)
    if h.sym:
        B = stubs.solve_triangular(L.T, stubs.solve_triangular(L, dKqx.T, lower=True))
        h.eq("oracle: (K+S) B == dK_xq", (L @ L.T) @ B, dKqx.T)
    else:
        B = np.linalg.solve(L @ L.T, dKqx.T)
    ref = prior - dKqx @ B
    h.eq("gradient covariance == prior gradient covariance - explained part", G, ref, tol=1e-5)
    h.eq("gradient covariance symmetric", G, np.asarray(G).T)


@unit("C16", quick=[dict(n=2, d=1), dict(n=2, d=2)])
def batched_equals_single(h, n, d):
    rg, cv, gp, x, y, th, pm, L, K = _gp(h, n, d, "lin")
    q = h.real("q", (2, d))
    gm, G = gp.gradient(q)
    dm, dv = gp.spatial_derivatives(q)
    for k in range(2):
        g1, G1 = gp.gradient(q[k][None, :])
        d1, v1 = gp.spatial_derivatives(q[k][None, :])
        h.eq(f"gradient mean, point {k}", np.asarray(gm)[k], g1)
        h.eq(f"gradient covariance, point {k}", np.asarray(G)[k], G1)
        h.eq(f"spatial_derivatives mean, point {k}", np.asarray(dm)[k], d1)
        h.eq(f"spatial_derivatives variance, point {k}", np.asarray(dv)[k], v1)


@unit("C16", quick=[dict(d=1), dict(d=2)], cost=4)
def derivatives_follow_the_current_hyperparameters(h, d):
    """a regressor whose hyper-parameters were changed with set_hyperparameters after earlier queries must give the
    same derivative predictions as one built directly with the new hyper-parameters (no state left from earlier calls)"""
    import inference.gp.regression as rg
    cv, mn = gc.patch_cov(h)
    h.patch(rg, solve_triangular=stubs.solve_triangular, zeros=ozeros, cholesky=stubs.cholesky)
    h.covers(rg.GpRegressor.set_hyperparameters, rg.GpRegressor.gradient, rg.GpRegressor.spatial_derivatives)
    n = 1
    x = h.real("x", (n, d))
    y = h.real("y", n)
    e = h.real("yerr", n, pos=True)
    th1 = h.real("th1", d + 2)
    th2 = h.real("th2", d + 2)
    q = h.real("q", (1, d))

    def mk(th):
        K = cv.SquaredExponential(hyperpar_bounds=[(-5.0, 5.0)] * (d + 1))
        M = mn.ConstantMean(hyperpar_bounds=[(-5.0, 5.0)])
        return rg.GpRegressor(x, y, y_err=e, hyperpars=th, kernel=K, mean=M)
    h.allow(np.linalg.LinAlgError)
    a = mk(th1)
    a(q), a.gradient(q), a.spatial_derivatives(q), a.build_posterior(q)
    a.set_hyperparameters(th2)
    b = mk(th2)
    for name, fa, fb in (("__call__", a(q), b(q)), ("gradient", a.gradient(q), b.gradient(q)),
                         ("spatial_derivatives", a.spatial_derivatives(q), b.spatial_derivatives(q)), ("build_posterior", a.build_posterior(q), b.build_posterior(q))):
        for k, (u, v) in enumerate(zip(fa, fb)):
            h.eq(f"{name}[{k}] after set_hyperparameters == fresh regressor", np.asarray(u), np.asarray(v))


@unit("C16", quick=[dict(n=2, d=1, form="int_array"), dict(n=2, d=2, form="int_list"), dict(n=2, d=2, form="int_array")], cost=3)
def query_points_of_any_numeric_type(h, n, d, form):
    """query points given with an integer dtype or as lists of ints (grids from arange / mgrid, hand-written lists): the
    derivative predictions must be those for the same points given as floats (symbolic training data and
    hyper-parameters, concrete integer query points)"""
    rg, cv, gp, x, y, th, pm, L, K = _gp(h, n, d, "const")
    pts = [[0, 2][:d], [1, -3][:d]]
    qi = np.array(pts) if form == "int_array" else [list(p) for p in pts]
    qf = np.array(pts, dtype=float)
    for name, fi, ff in (("gradient", gp.gradient(qi), gp.gradient(qf)), ("spatial_derivatives", gp.spatial_derivatives(qi), gp.spatial_derivatives(qf))):
        for k, (u, v) in enumerate(zip(fi, ff)):
            h.same(f"{name}[{k}]: same shape for integer and float query points", np.asarray(u).shape, np.asarray(v).shape)
            h.eq(f"{name}[{k}]: integer query points == the same points as floats", np.asarray(u), np.asarray(v))
    mu_i, sig_i = gp(qi)
    mu_f, sig_f = gp(qf)
    h.eq("predictive mean: integer query points == floats", mu_i, mu_f)


@unit("C16", quick=[dict(kernel="SE+SE+WN", n=2, d=1), dict(kernel="SE+WN", n=2, d=1), dict(kernel="RQ", n=2, d=2)], thorough=[dict(kernel="SE+SE+WN", n=2, d=2)], cost=4)
def sums_of_kernels_either_decline_or_differentiate_correctly(h, kernel, n, d):
    """derivative predictions with a *sum* of kernels: the library may decline (NotImplementedError, its documented answer
    for kernels without gradient support) -- but if it answers, the answer must be the derivative of the predictive mean and
    variance, exactly as for a single kernel"""
    rg, cv, gp, x, y, th, pm, L, K = _gp(h, n, d, "const", kernel=kernel)
    h.allow(NotImplementedError)
    q = h.real("q", d)
    fm = lambda p: gp.build_posterior(np.asarray(p)[None, :], mean_only=True)[0]  # noqa: E731
    fv = lambda p: gp.build_posterior(np.asarray(p)[None, :])[1][0, 0]  # noqa: E731
    h.same("the library either declines or answers (both are reached below)", True, True)
    gm, gcov = gp.gradient(q[None, :])
    h.is_gradient("gradient(q) mean == d mean / d q", fm, q, np.atleast_1d(gm))
    dm, dv = gp.spatial_derivatives(q[None, :])
    h.is_gradient("spatial_derivatives(q) mean part == d mean / d q", fm, q, np.atleast_1d(dm))
    h.is_gradient("spatial_derivatives(q) variance part == d variance / d q", fv, q, np.atleast_1d(dv))
