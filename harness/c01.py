"""C01 — MCMC samplers draw from the posterior the user supplied"""
import numpy as np
import z3

from symnp import stubs
from symnp.harness import unit
from harness import mcmc_common as mc

EXPLANATION = (
    "One transition of MetropolisChain, GibbsChain, PcaChain, HamiltonianChain (take_step) and EnsembleSampler "
    "(__advance_walker, __proposal) is executed from an arbitrary symbolic state with an uninterpreted log-density L "
    "(for all log-densities), symbolic temperature, proposal widths / step size / stretch parameter / mass and every "
    "random draw symbolic (every realisation of the random stream). From the recorded evaluation points and draws on "
    "each path the harness asserts: every accept/reject decision taken equals the Metropolis-Hastings rule "
    "u <= min(1, rho) for the move actually proposed, with rho = exp((L(theta')-L(theta_cur))/T) (Gibbs/PCA/Metropolis, "
    "theta_cur including the earlier coordinate updates of the same step), exp(H(theta,r)-H(theta',r')) with "
    "H = r.M^-1.r/2 - L/T (HMC), z^(n-1) exp(L(Y)-L(X_i)) (ensemble); the proposal is the documented reversible move "
    "(additive along the coordinate / principal direction; stretch move Y = X_j + z (X_i - X_j) undone by the same move "
    "with 1/z; z(u) maps [0,1] monotonically onto [1/alpha, alpha] with density proportional to 1/sqrt(z)); the stored "
    "sample is the accepted point. Leapfrog reversibility / volume preservation / momentum law are C07's obligations."
    " The tempering exchange (ParallelTempering.swap / tempering_process under the baton scheduler) is asserted to be the Metropolis move for the product of the tempered targets. The ensemble stretch law is obtained by driving the sampler's own proposal routine with a chosen uniform variate."
)
BOUNDS = {"quick": "dimension <=2, <=2 rejected attempts per coordinate (HMC / ensemble: <=2 attempts), 1 step, 3 walkers",
          "thorough": "dimension <=3 (Gibbs), <=3 rejected attempts, 4 walkers"}
ASSUMPTIONS = [
    "standard theorem (trusted): symmetric/reversible proposal + MH acceptance at temperature T => the tempered density is stationary",
    "outside: ergodicity, on-line adaptation of widths / step size (diminishing adaptation), burn-in",
    "paths with more rejected attempts than the bound are abandoned and counted, not passed",
    "accept decisions are compared up to the measure-zero boundary u == rho",
]


def _idx(ev, item):
    return next(k for k, e in enumerate(ev) if e is item)


def _groups(ev, start_kind):
    """split the event list into attempts; every attempt starts with a draw of kind `start_kind`"""
    groups, cur = [], None
    for e in ev:
        if e[0] == start_kind[0] and (start_kind[1] is None or e[1].startswith(start_kind[1])):
            if cur is not None and any(x[0] == "L" for x in cur):
                groups.append(cur)
                cur = []
            elif cur is None:
                cur = []
        if cur is not None:
            cur.append(e)
    if cur:
        groups.append(cur)
    return groups


def _decision(h, tag, k, rho, u, accepted):
    """the decision taken on this path must be the MH decision for ratio rho"""
    if u is None:
        h.true(f"{tag}: attempt {k} accepted without a draw only if the MH ratio is >= 1", rho >= 1)
        h.same(f"{tag}: attempt {k} without a draw is the accepted one", accepted, True)
    elif accepted:
        h.true(f"{tag}: attempt {k} accepted  =>  u <= min(1, ratio)", u <= rho)
    else:
        h.true(f"{tag}: attempt {k} rejected  =>  u >= min(1, ratio)", (u >= rho) & (rho <= 1))


@unit("C01", quick=[dict(cls="gibbs", d=1, retries=2), dict(cls="gibbs", d=2, retries=1), dict(cls="metropolis", d=2, retries=2)],
      thorough=[dict(cls="gibbs", d=2, retries=2), dict(cls="gibbs", d=3, retries=1), dict(cls="metropolis", d=3, retries=3)], max_paths=6000, cost=5)
def coordinate_metropolis_decisions(h, cls, d, retries):
    ev = mc.Events()
    per = d if cls == "gibbs" else 1
    gb, chain, post, T, pts = mc.make_metropolis_like(h, cls, d, ev, max_draws=(retries + 1) * (1 if cls == "gibbs" else 1))
    h.covers(gb.GibbsChain.take_step, gb.MetropolisChain.take_step, gb.Parameter.standard_proposal, gb.MetropolisChain.__init__)
    beta = 1 / T
    sig = [p.sigma for p in chain.params]
    if cls == "metropolis":
        # the chain's own bookkeeping of the current log-probability (C03 checks it is maintained)
        chain.probs = [post.uf(pts[-1]) * chain.inv_temp]
    del ev[:]
    chain.take_step()
    cur = np.array(pts[-1]).copy()
    Lcur = post.uf(cur)
    if cls == "gibbs":
        for i in range(d):
            evs = [e for e in ev if (e[0] == "z" and e[1] == f"prng{i}") or e[0] in ("L", "u")]
            # attempts of coordinate i: z(prng i) L [u]
            idx = [k for k, e in enumerate(ev) if e[0] == "z" and e[1] == f"prng{i}"]
            end = [k for k, e in enumerate(ev) if e[0] == "z" and e[1] == f"prng{i+1}"][:1] or [len(ev)]
            atts = []
            for a, k in enumerate(idx):
                stop = idx[a + 1] if a + 1 < len(idx) else end[0]
                seg = ev[k:stop]
                z = seg[0][2]
                Ls = [e for e in seg if e[0] == "L"]
                us = [e for e in seg if e[0] == "u"]
                atts.append((z, Ls[0], us[0][2] if us else None))
            for a, (z, Lc, u) in enumerate(atts):
                prop, val = Lc[1], Lc[2]
                want = cur.copy()
                want[i] = cur[i] + sig[i] * z
                h.eq(f"coord {i} attempt {a}: proposal == current point + sigma_i z e_i", prop, want)
                rho = h.exp(beta * val - beta * Lcur)
                _decision(h, f"coord {i}", a, rho, u, accepted=(a == len(atts) - 1))
            cur, Lcur = atts[-1][1][1].copy(), atts[-1][1][2]
    else:
        zs = [e for e in ev if e[0] == "z"]
        Ls = [e for e in ev if e[0] == "L"]
        natt = len(Ls)
        for a, Lc in enumerate(Ls):
            z = [e[2] for e in zs[a * d:(a + 1) * d]]
            want = cur + np.array(sig, dtype=object if h.sym else float) * np.array(z, dtype=object if h.sym else float)
            h.eq(f"attempt {a}: proposal == current point + sigma z", Lc[1], want)
            # the uniform draw (if any) following this posterior call and preceding the next one
            k0 = _idx(ev, Lc)
            nxt = _idx(ev, Ls[a + 1]) if a + 1 < natt else len(ev)
            us = [e for e in ev[k0:nxt] if e[0] == "u"]
            rho = h.exp(beta * Lc[2] - beta * Lcur)
            _decision(h, "joint move", a, rho, us[0][2] if us else None, accepted=(a == natt - 1))
        cur, Lcur = Ls[-1][1].copy(), Ls[-1][2]
    h.eq("stored sample == accepted point", chain.get_last(), cur)
    if cls == "gibbs":
        h.eq("stored log-probability == L(accepted point)/T", chain.probs[-1], beta * Lcur)


@unit("C01", quick=[dict(d=2, retries=1)], thorough=[dict(d=2, retries=2)], max_paths=6000, cost=5)
def pca_decisions(h, d, retries):
    ev = mc.Events()
    c = h.real("rot_c")
    s = h.real("rot_s")
    h.assume(c * c + s * s == 1, "principal directions are orthonormal (rotation)")
    dt = object if h.sym else float
    V = [np.array([c, s], dtype=dt), np.array([-s, c], dtype=dt)]
    pca, chain, post, T, pts = mc.make_pca(h, d, ev, directions=V, max_draws=d * (retries + 1) + d * (retries + 1))
    h.covers(pca.PcaChain.take_step)
    beta = 1 / T
    sig = [p.sigma for p in chain.params]
    del ev[:]
    chain.take_step()
    cur = np.array(pts[-1]).copy()
    Lcur = post.uf(cur)
    # attempts in order: z L [u]; the direction index advances after every accepted attempt
    k, direction, a = 0, 0, 0
    while k < len(ev):
        assert ev[k][0] == "z"
        z = ev[k][2]
        Lc = ev[k + 1]
        u = ev[k + 2][2] if k + 2 < len(ev) and ev[k + 2][0] == "u" else None
        nxt = k + (3 if u is not None else 2)
        # accepted iff the next attempt belongs to the next direction, i.e. this is the last attempt of the direction:
        # the code moves on exactly when it accepts, so "accepted" is read off the position it continues from
        want = cur + V[direction] * sig[direction] * z
        h.eq(f"direction {direction} attempt {a}: proposal == current + v_k sigma_k z", Lc[1], want)
        rho = h.exp(beta * Lc[2] - beta * Lcur)
        accepted = _pca_accepted(chain, ev, k, d)
        _decision(h, f"direction {direction}", a, rho, u, accepted)
        if accepted:
            cur, Lcur = Lc[1].copy(), Lc[2]
            direction += 1
            a = 0
        else:
            a += 1
        k = nxt
    h.same("every direction was updated once", direction, d)
    h.eq("stored sample == accepted point", chain.get_last(), cur)
    h.eq("stored log-probability == L(accepted point)/T", chain.probs[-1], beta * Lcur)


def _pca_accepted(chain, ev, k, d):
    """an attempt z L [u] was accepted iff no uniform draw followed (auto accept) or it is the last
    attempt before the direction changes; the direction changes are recovered from the accept statistics
    the code itself submits (Parameter.num counts attempts per direction)."""
    # attempts per direction, in order, from the per-parameter counters
    counts = [int(p.num) for p in chain.params]
    order = []
    for i, c in enumerate(counts):
        order += [(i, j, j == c - 1) for j in range(c)]
    att = [e for e in ev[:k + 1] if e[0] == "z"]
    return order[len(att) - 1][2]


@unit("C01", quick=[dict(d=1, mass="scalar", attempts=2), dict(d=2, mass="vector", attempts=1)],
      thorough=[dict(d=2, mass="vector", attempts=2), dict(d=2, mass="matrix", attempts=1)], max_paths=4000, cost=6)
def hmc_decisions(h, d, mass, attempts):
    ev = mc.Events()
    hmc, chain, post, grad, T, start, eps, im = mc.make_hmc(h, d, ev, mass=mass, steps=1)
    h.covers(hmc.HamiltonianChain.take_step)
    chain.max_attempts = attempts
    h.allow(ValueError)
    beta = 1 / T
    del ev[:]
    chain.take_step()
    t0 = np.array(start)
    L0 = post.uf(t0)

    def kin(r):
        r = np.asarray(r)
        if mass == "matrix":
            return 0.5 * (r @ (im @ r))
        return 0.5 * (r @ (im * r))
    lfs = [e for e in ev if e[0] == "LF"]
    Ls = [e for e in ev if e[0] == "L"]
    h.same("one trajectory and one posterior evaluation per attempt", len(lfs), len(Ls))
    for a, (lf, Lc) in enumerate(zip(lfs, Ls)):
        (ts, rs, n), (t1, r1) = lf[1], lf[2]
        h.eq(f"attempt {a}: trajectory starts at the current point", ts, t0)
        h.eq(f"attempt {a}: posterior evaluated at the trajectory end", Lc[1], t1)
        rho = h.exp((kin(rs) - beta * L0) - (kin(r1) - beta * Lc[2]))
        k0 = _idx(ev, Lc)
        nxt = _idx(ev, lfs[a + 1]) if a + 1 < len(lfs) else len(ev)
        us = [e for e in ev[k0:nxt] if e[0] == "u"]
        last = (a == len(lfs) - 1)
        _decision(h, "hmc", a, rho, us[0][2] if us else None, accepted=last)
    h.eq("stored sample == accepted trajectory end", chain.theta[-1], lfs[-1][2][0])
    h.eq("stored log-probability == L(accepted point)/T", chain.probs[-1], beta * Ls[-1][2])


@unit("C01", quick=[dict(d=1, nw=3), dict(d=2, nw=3)], thorough=[dict(d=2, nw=4), dict(d=3, nw=4)], max_paths=4000, cost=5)
def ensemble_stretch_move_decisions(h, d, nw):
    ev = mc.Events()
    en, s, post, alpha, X = mc.make_ensemble(h, d, nw, ev, max_attempts=2)
    h.covers(en.EnsembleSampler.__init__, *mc.priv(en.EnsembleSampler, "_EnsembleSampler__proposal", "_EnsembleSampler__advance_walker"))
    i = h.choice_int("walker", 0, nw - 1)
    X0 = np.array(X).copy()
    Li = post.uf(X0[i])
    choices = []
    real_int = s.rng.integers

    def integers(low, high=None, size=None):
        v = real_int(low, high, size)
        choices.append(v)
        return v
    s.rng.integers = integers
    del ev[:]
    mc.find_method(s, ("walker",), "the single-walker update")(i)
    us = [e for e in ev if e[0] == "u"]
    Ls = [e for e in ev if e[0] == "L"]
    moved = not bool(np.all([a is b for a, b in zip(np.asarray(s.walker_positions[i]).ravel(), X0[i].ravel())])) if h.sym else \
        not np.allclose(np.asarray(s.walker_positions[i], dtype=float), np.asarray(X0[i], dtype=float), rtol=0, atol=0)
    x_lwr = h.sqrt(2.0 / alpha)
    x_wid = h.sqrt(2.0 * alpha) - x_lwr
    for a, Lc in enumerate(Ls):
        j = (choices[a] + i) % nw
        h.same(f"attempt {a}: the complementary walker is not the walker itself", j != i, True)
        u_st, u_acc = us[2 * a][2], us[2 * a + 1][2]
        z = 0.5 * (x_lwr + x_wid * u_st) ** 2
        h.eq(f"attempt {a}: stretch move Y == X_j + z (X_i - X_j)", Lc[1], X0[j] + z * (X0[i] - X0[j]))
        rho = z ** (d - 1) * h.exp(Lc[2] - Li)
        last = (a == len(Ls) - 1)
        accepted = last and moved
        if accepted:
            h.true(f"attempt {a} accepted  =>  u <= min(1, z^(n-1) exp(L(Y)-L(X_i)))", u_acc <= rho)
        else:
            h.true(f"attempt {a} rejected  =>  u >= min(1, ratio)", u_acc >= rho)
    if moved:
        h.eq("walker moved to the accepted proposal", s.walker_positions[i], Ls[-1][1])
        h.eq("walker log-probability == L(accepted proposal)", s.walker_probs[i], Ls[-1][2])


@unit("C01")
def stretch_distribution_and_reversal(h):
    """z(u) = (x_lwr + x_width u)^2 / 2 maps [0,1] onto [1/alpha, alpha], monotonically, with density ~ 1/sqrt(z);
    the move with stretch z is undone by the same move with stretch 1/z"""
    ev = mc.Events()
    d, nw = 1, 2
    en, s, post, alpha, X = mc.make_ensemble(h, d, nw, ev, max_attempts=1)
    X0 = np.array(X).copy()

    class R:
        def __init__(self, uu):
            self.uu = uu

        def integers(self, low, high=None):
            return 1  # (1 + i) % 2: the other walker

        def random(self):
            return self.uu

    def z_of(uu):   # the stretch the sampler's own proposal code draws from the uniform variate uu
        s.rng = R(uu)
        s.walker_positions = np.array(X0, dtype=object if h.sym else float)
        return mc.find_method(s, ("proposal", "stretch"), "the stretch-move proposal")(0)[1]
    h.eq("z(0) == 1/alpha", z_of(0.0 * alpha), 1 / alpha)
    h.eq("z(1) == alpha", z_of(1.0 + 0.0 * alpha), alpha)
    u = h.real("u", lo=0, hi=1)
    J = h.jacobian(lambda uu: np.array([z_of(uu[0])], dtype=object if h.sym else float), np.array([u], dtype=object if h.sym else float))
    h.ge("z(u) is increasing", J[0, 0], 0.0, strict=True)
    # density of z proportional to 1/sqrt z on [1/alpha, alpha]:  dz/du == c sqrt z  with  c = 2 (sqrt(alpha) - 1/sqrt(alpha))
    # (written with sqrt(2 alpha), sqrt(2 / alpha):  c^2 = 2 (sqrt(2 alpha) - sqrt(2 / alpha))^2)
    lw = h.sqrt(2.0 / alpha)
    wd = h.sqrt(2.0 * alpha) - lw
    h.eq("(dz/du)^2 == c^2 z   (density of z proportional to 1/sqrt z)", J[0, 0] * J[0, 0], 2 * wd * wd * z_of(u), tol=1e-5)
    # reversal: Y from (X_i, X_j, z);  the same code path with X_i := Y and stretch 1/z must return to X_i
    z = z_of(u)
    u_back = (h.sqrt(2.0 / z) - lw) / wd   # the uniform variate that yields the stretch 1/z under that law
    h.ge("1/z is a reachable stretch (u' >= 0)", u_back, 0.0, tol=1e-9)
    h.le("1/z is a reachable stretch (u' <= 1)", u_back, 1.0, tol=1e-9)
    s.walker_positions = np.array(X0, dtype=object if h.sym else float)
    s.rng = R(u)
    Y, zz = mc.find_method(s, ("proposal", "stretch"), "the stretch-move proposal")(0)
    h.eq("stretch used == z(u)", zz, z)
    s.walker_positions = np.array([Y, X0[1]], dtype=object if h.sym else float)
    s.rng = R(u_back)
    back, zb = mc.find_method(s, ("proposal", "stretch"), "the stretch-move proposal")(0)
    h.eq("reverse stretch == 1/z", zb * z, 1.0, tol=1e-7)
    h.eq("the move with stretch 1/z returns to X_i (reversible proposal)", back, X0[0], tol=1e-6)


@unit("C01", quick=[dict(d=1, mass="scalar"), dict(d=2, mass="vector"), dict(d=2, mass="matrix")], thorough=[dict(d=3, mass="vector")])
def hmc_momentum_law_matches_kinetic_energy(h, d, mass):
    """the momenta are drawn from the Gaussian whose negative log-density is the kinetic energy used in the
    accept test: kinetic_energy(sample_momentum(z)) == z.z/2 for standard normal z (same obligation as C07)"""
    ev = mc.Events()
    hmc, chain, post, grad, T, start, eps, im = mc.make_hmc(h, d, ev, mass=mass)
    h.covers(type(chain.mass).sample_momentum, type(chain.mass).get_velocity, hmc.HamiltonianChain.kinetic_energy)
    rng = stubs.SymRng(h, "mom")
    r = chain.mass.sample_momentum(rng)
    z = np.array([v for k, v in rng.log], dtype=object if h.sym else float)
    h.same("one standard-normal draw per parameter", len(z), d)
    h.eq("kinetic_energy(sample_momentum(z)) == z.z/2", chain.kinetic_energy(r), 0.5 * (z @ z))


@unit("C01", quick=[dict(N=2, cp=4)], thorough=[dict(N=3, cp=2)], max_paths=20000, cost=5)
def tempering_exchange_is_metropolis_for_the_product_target(h, N, cp):
    """the chains run under parallel tempering: an exchange between chains i and j is a Metropolis move for the product
    of the tempered targets iff it is accepted with min(1, exp((1/T_i - 1/T_j)(L_j - L_i))) on the *untempered*
    log-densities and each chain afterwards carries the received point with the log-probability at its own temperature
    (otherwise the next within-chain accept/reject compares against a wrong current value).  Same execution of the real
    ParallelTempering.swap / tempering_process code as C08's unit, asserted here for C01."""
    from harness import c08
    c08.swap_is_metropolis_exchange(h, N, cp)


@unit("C01", quick=[dict(d=1, n=2, mass="scalar"), dict(d=2, n=1, mass="vector")], families=1, floor_fork=(-1, 1), cost=4)
def hmc_trajectory_with_limits_is_a_reversible_proposal(h, d, n, mass):
    """'proposals are reversible' for the Hamiltonian sampler with parameter limits: the trajectory map including the
    folds at the limits, followed by a momentum flip, is its own inverse (otherwise exp(H0 - H) is not the
    Metropolis-Hastings probability of the move that was proposed).  Same execution of the real bounded_leapfrog /
    Bounds.reflect_momenta code as C07's unit, asserted here for C01"""
    from harness import c07
    c07.leapfrog_is_reversible(h, d, n, mass, True)


@unit("C01", cost=3, floor_lemmas=True)
def gibbs_proposal_with_limits_is_symmetric(h):
    """'proposals are reversible' for Gibbs / Metropolis parameters with boundaries or non-negativity: the raw Gaussian
    draw is symmetric, so the proposal stays symmetric iff the map that brings it back inside is the identity inside and an
    even (mirror) fold outside, for any overshoot.  Same execution of Parameter.boundary_proposal / abs_proposal as C04's
    units, asserted here for C01"""
    from harness import c04
    c04.boundary_proposal_fold(h)
    c04.abs_proposal_fold(h)
