"""C07 — Hamiltonian trajectories are reversible, volume-preserving and energy-accurate"""
import numpy as np
import z3

from symnp import stubs
from symnp.core import RS
from symnp.diff import DERIV
from symnp.harness import unit
from harness import mcmc_common as mc

EXPLANATION = (
    "HamiltonianChain.standard_leapfrog / bounded_leapfrog (via run_leapfrog), hamiltonian, kinetic_energy, "
    "finite_diff and the ParticleMass classes are executed with symbolic position, momentum, step size, "
    "temperature, inverse mass (scalar / per-parameter / full matrix = Lm.Lm^T) and bound box; the gradient is an "
    "uninterpreted vector field (the partial-derivative symbols of an uninterpreted potential L, symmetric Hessian "
    "symbols). Asserted: LF(flip(LF(t,r))) == flip(t,r); det of the symbolic Jacobian of (t,r)->LF(t,r) == 1; "
    "dH(eps)=H(LF_eps(t,r))-H(t,r) has dH(0)=dH'(0)=dH''(0)=0 (energy error is O(eps^3) per trajectory, i.e. shrinks "
    "at least quadratically); kinetic_energy(sample_momentum(z)) == z.z/2 for each mass class; finite_diff never divides "
    "by zero and on quadratic potentials is within the first-order forward-difference error bound of the true gradient."
    ' finite_diff accuracy is also asserted for chains with parameter limits (any point of the closed box, any width).'
)
BOUNDS = {"quick": "dimension <=2, <=2 leapfrog steps (volume/energy: d<=2, 1-2 steps)",
          "thorough": "dimension <=3, <=3 leapfrog steps; matrix mass d=2"}
ASSUMPTIONS = [
    "floats modelled as reals",
    "bounded trajectories: reversibility / volume checked for every fold pattern (fold counts are integer unknowns)",
    "'smooth log-density' = uninterpreted potential with gradient and symmetric Hessian symbols",
    "finite_diff accuracy is asserted for quadratic log-densities (error bound 1e-5*(1+|t_i|)*|L_ii|)",
]


def _register_hessian(d):
    """second partials of the potential are symmetric: d/dt_j L_d{i} = Hsym(min(i,j), max(i,j))"""
    for i in range(d):
        def rule(e, i=i):
            return [z3.Function(f"L_dd{min(i, j)}{max(i, j)}", *([RS] * d), RS)(*e.children()) for j in range(d)]
        DERIV[f"L_d{i}"] = rule


def _chain(h, d, mass, bounded, smooth=True):
    ev = mc.Events()
    # replay: a smooth concrete potential where derivatives are taken numerically, otherwise the
    # solver model's own table of gradient values
    fam = mc.potential_family(d) if smooth else None
    bounds = None
    if bounded:
        lo = h.real("lo", d)
        w = h.real("w", d, pos=True)
        bounds = (lo, lo + w)
    hmc, chain, post, grad, T, start, eps, im = mc.make_hmc(h, d, ev, mass=mass, bounds=bounds, family=fam)
    h.covers(hmc.HamiltonianChain.standard_leapfrog, hmc.HamiltonianChain.bounded_leapfrog, hmc.HamiltonianChain.hamiltonian,
             hmc.HamiltonianChain.kinetic_energy, type(chain.mass).get_velocity, type(chain.mass).sample_momentum, type(chain.mass).__init__)
    return hmc, chain, bounds, eps, T, im, ev


def _tr(h, d, bounds):
    if bounds is None:
        t = h.real("t", d)
    else:
        t = bounds[0] + h.real("tf", d, lo=0, hi=1) * (bounds[1] - bounds[0])
    r = h.real("r", d)
    return t, r


QREV = [dict(d=1, n=2, mass="scalar", bounded=False), dict(d=2, n=2, mass="vector", bounded=False),
        dict(d=2, n=1, mass="matrix", bounded=False), dict(d=1, n=2, mass="scalar", bounded=True),
        dict(d=2, n=1, mass="vector", bounded=True)]
TREV = [dict(d=3, n=3, mass="vector", bounded=False), dict(d=2, n=2, mass="matrix", bounded=False),
        dict(d=2, n=2, mass="vector", bounded=True), dict(d=1, n=3, mass="scalar", bounded=True)]


@unit("C07", quick=QREV, thorough=TREV, families=1, floor_fork=(-1, 1))
def leapfrog_is_reversible(h, d, n, mass, bounded):
    hmc, chain, bounds, eps, T, im, ev = _chain(h, d, mass, bounded, smooth=False)
    t0, r0 = _tr(h, d, bounds)
    t1, r1 = chain.run_leapfrog(t0.copy(), r0.copy(), n)
    t2, r2 = chain.run_leapfrog(t1.copy(), -r1, n)
    h.assume_off_kinks()
    h.eq("position returns", t2, t0)
    h.eq("momentum returns negated", r2, -r0)


@unit("C07", quick=[dict(d=2, n=1)], families=1, floor_fork=(-1, 1))
def bounded_matrix_mass_reversible(h, d, n):
    hmc, chain, bounds, eps, T, im, ev = _chain(h, d, "matrix", True, smooth=False)
    t0, r0 = _tr(h, d, bounds)
    t1, r1 = chain.run_leapfrog(t0.copy(), r0.copy(), n)
    t2, r2 = chain.run_leapfrog(t1.copy(), -r1, n)
    h.assume_off_kinks()
    h.eq("position returns", t2, t0)
    h.eq("momentum returns negated", r2, -r0)


QVOL = [dict(d=1, n=2, mass="scalar", bounded=False), dict(d=2, n=1, mass="vector", bounded=False),
        dict(d=1, n=2, mass="scalar", bounded=True), dict(d=2, n=1, mass="matrix", bounded=False)]
TVOL = [dict(d=2, n=2, mass="vector", bounded=False), dict(d=2, n=2, mass="matrix", bounded=False),
        dict(d=2, n=1, mass="vector", bounded=True), dict(d=2, n=2, mass="vector", bounded=True)]


@unit("C07", quick=QVOL, thorough=TVOL, families=1, floor_fork=(-1, 1))
def leapfrog_preserves_volume(h, d, n, mass, bounded):
    hmc, chain, bounds, eps, T, im, ev = _chain(h, d, mass, bounded)
    _register_hessian(d)
    if bounds is None:
        t0 = h.real("t", d)
    else:
        t0 = h.real("t", d)
        h.assume(bool(np.all(t0 >= bounds[0]) and np.all(t0 <= bounds[1])) if not h.sym else
                 z3.And(*[z3.And(a.e >= b.e, a.e <= c.e) for a, b, c in zip(t0, bounds[0], bounds[1])]), "start inside the box")
    r0 = h.real("r", d)
    x = np.concatenate([t0, r0])

    def flow(xx):
        t1, r1 = chain.run_leapfrog(xx[:d].copy(), xx[d:].copy(), n)
        return np.concatenate([t1, r1])
    J = h.jacobian(flow, x)
    h.assume_off_kinks()
    h.eq("det(Jacobian)==1", stubs.det(J) if h.sym else np.linalg.det(J), 1.0, tol=1e-5, tol_abs=1e-4)


QEN = [dict(d=1, n=1, mass="scalar"), dict(d=1, n=2, mass="scalar"), dict(d=2, n=1, mass="vector")]
TEN = [dict(d=2, n=2, mass="vector"), dict(d=2, n=1, mass="matrix"), dict(d=2, n=2, mass="matrix")]


@unit("C07", quick=QEN, thorough=TEN, families=1)
def energy_error_is_third_order(h, d, n, mass):
    hmc, chain, bounds, eps, T, im, ev = _chain(h, d, mass, False)
    _register_hessian(d)
    t0, r0 = _tr(h, d, None)
    e = h.real("epsilon") if h.sym else 0.0

    def dH(ep):
        chain.ES.epsilon = ep
        t1, r1 = chain.run_leapfrog(t0.copy(), r0.copy(), n)
        return chain.hamiltonian(t1, r1) - chain.hamiltonian(t0, r0)
    for order in (0, 1, 2):
        h.eq(f"d^{order} dH / d eps^{order} at eps=0 is 0", h.derivative_at(dH, e, 0.0, order), 0.0, tol=2e-4, tol_abs=1e-4)


@unit("C07", quick=[dict(d=1, mass="scalar"), dict(d=2, mass="vector"), dict(d=2, mass="matrix")],
      thorough=[dict(d=3, mass="vector"), dict(d=3, mass="scalar")])
def kinetic_energy_matches_momentum_law(h, d, mass):
    hmc, chain, bounds, eps, T, im, ev = _chain(h, d, mass, False)
    rng = stubs.SymRng(h, "mom")
    r = chain.mass.sample_momentum(rng)
    z = np.array([v for k, v in rng.log], dtype=object if h.sym else float)
    h.same("momentum draws", len(z), d)
    h.eq("kinetic_energy(sample_momentum(z)) == z.z/2", chain.kinetic_energy(r), 0.5 * (z @ z))
    t = h.real("t", d)
    h.eq("hamiltonian == kinetic - L/T", chain.hamiltonian(t, r), 0.5 * (z @ z) - chain.posterior(t) * chain.inv_temp)


@unit("C07", quick=[dict(d=1), dict(d=2), dict(d=1, bounded=True), dict(d=2, bounded=True)], thorough=[dict(d=3)])
def finite_difference_gradient(h, d, bounded=False):
    """no gradient supplied: estimate defined at every point (zero coordinates included; with parameter limits: any point
    of the closed box, next to either wall, any box width) and accurate"""
    ev = mc.Events()
    if bounded:
        lo = h.real("lo", d)
        up = lo + h.real("wd", d, pos=True)
        hmc, chain, post, grad, T, start, eps, im = mc.make_hmc(h, d, ev, use_grad=False, bounds=(lo, up))
    else:
        hmc, chain, post, grad, T, start, eps, im = mc.make_hmc(h, d, ev, use_grad=False)
    h.covers(hmc.HamiltonianChain.finite_diff)
    c0 = h.real("c0")
    b = h.real("b", d)
    A = h.real("A", (d, d))
    A = 0.5 * (A + A.T)

    def quad(t):
        t = np.asarray(t)
        return c0 + b @ t + 0.5 * (t @ (A @ t))
    chain.posterior = quad
    t = lo + h.real("tf", d, lo=0, hi=1) * (up - lo) if bounded else h.real("t", d)
    m = h.mark()
    G = chain.finite_diff(t.copy())
    h.defined("finite_diff is defined for every t (no division by zero)", G, since=m)
    true = (b + A @ t) * chain.inv_temp
    for i in range(d):
        bound = 1e-5 * (1 + abs(t[i])) * abs(A[i, i]) * chain.inv_temp
        h.le(f"|finite_diff[{i}] - dL/dt[{i}]| within first-order bound", abs(G[i] - true[i]), bound, tol=1e-7)
    # zero-valued coordinates explicitly
    t0 = t.copy()
    t0[0] = 0.0 * t[0]
    m = h.mark()
    G0 = chain.finite_diff(t0.copy())
    h.defined("finite_diff is defined at a zero coordinate", G0, since=m)


@unit("C07", quick=[dict(d=1), dict(d=2)], thorough=[dict(d=3)])
def fold_at_the_limits_for_any_overshoot(h, d):
    """the fold used inside bounded trajectories, for a raw position any distance outside the limits (several box widths,
    non-zero lower limits): the reported momentum factor is the slope of the position fold (+1 / -1), so a multi-bounce
    step is folded and its momentum reversed consistently.  Same execution of Bounds.reflect_momenta as C04's unit"""
    from harness import c04
    c04.momentum_factor_is_fold_slope(h, d)
    c04.reflect_inside_and_identity(h, d)
