"""C08 — parallel-tempering exchanges are correct and independent of scheduling"""
import numpy as np
import z3

from symnp import stubs, sched
from symnp.core import R, SymBool
from symnp.harness import unit
from harness import mcmc_common as mc

EXPLANATION = (
    "ParallelTempering (__init__, take_steps, swap, tight_pairs, uniform_pairs, return_chains, shutdown) and the worker "
    "function tempering_process are executed with multiprocessing.Pipe / Process / Event replaced by in-process stubs: "
    "every worker runs the real tempering_process as a task under a baton-passing scheduler that may switch at every "
    "poll / recv / send; which runnable task proceeds is a forked choice, so a path is one interleaving class, with all "
    "positions, log-probabilities, temperatures and uniforms symbolic. Asserted: the proposed pairs are disjoint and in "
    "range for every outcome of the random pairing (N = 1..5); a proposed pair (i,j) is exchanged iff "
    "u <= exp((1/T_i - 1/T_j)(L_j - L_i)) with L the untempered log-density; after an accepted exchange chain i holds j's "
    "previous point with log-probability L_j/T_i, unexchanged chains are untouched, the swap counters move by exactly the "
    "attempted / accepted pairs; the chains returned under the forked schedule equal those under the canonical schedule "
    "(schedule independence); every chain took exactly the requested number of steps; after shutdown every worker has "
    "left its loop. ParallelTempering.advance(n, swap_interval): AST-encoded (pyint), total steps == n and swap rounds == "
    "n // swap_interval for all n >= 0, swap_interval = 1..64."
    ' Two exchange rounds in a row; arbitrary ladders (any order, repeated temperatures); hand-back order of return_chains under every delivery order.'
)
BOUNDS = {"quick": "pairings: 1..10 chains (tight), 1..7 (uniform); exchanges / scheduling: <=3 chains, <=6 (2 chains) / <=4 (3 chains) scheduling choice points per path (later switches follow the canonical order); advance: all n>=0, swap_interval 1..64",
          "thorough": "4-5 chains for pairing, 2 chains with 10 / 3 chains with 6 scheduling choice points"}
TECHNIQUE = "symbolic execution of the real ParallelTempering / tempering_process code under an in-process baton scheduler with forked interleavings (z3 per-path queries); advance() arithmetic by AST-to-SMT integer encoding with loop summarisation, decided for all n by z3; counterexamples replayed"
ASSUMPTIONS = [
    "pipes are FIFO and reliable, Event.set is visible to later is_set, join returns when the worker function returns",
    "outside: real OS processes, pickling of chains, poll time-outs, OS scheduler fairness (ParallelTempering.run_for's clock loop is decided under C15)",
    "worker chains are recording stub chains (get_last / replace_last / take_step / probs / inv_temp contract of the samplers, checked in C03)",
    "pyint loop-summarisation lemma for advance()",
]


class StubChain:
    """the interface tempering_process uses, with symbolic content"""

    def __init__(self, h, k, beta, L):
        self.h, self.k, self.inv_temp, self.L = h, k, beta, L
        x0 = h.real(f"chain{k}.x0", 1)
        self.points = [x0]
        self.probs = [L(x0) * beta]
        self.steps = 0

    def take_step(self):
        self.steps += 1
        new = self.points[-1] + self.h.real(f"chain{self.k}.move{self.steps}", 1)
        self.points.append(new)
        self.probs.append(self.L(new) * self.inv_temp)

    def get_last(self):
        return self.points[-1]

    def replace_last(self, theta):
        self.points[-1] = theta

    def state(self):
        dt = object if self.h.sym else float
        return np.concatenate([np.concatenate(self.points), np.array(self.probs, dtype=dt)])


def _system(h, N, chooser, max_cp=8, tag="", general_ladder=True):
    import inference.mcmc.parallel as par
    sc = sched.Scheduler(chooser, max_cp)
    Pipe, Process, Event = sched.install(sc)
    h.patch(par, both=True, Pipe=Pipe, Process=Process, Event=Event)
    L = h.ufunc("L", 1)
    # any ladder: inverse temperatures in (0, 1] in any order (the list need not be sorted and need not start with T = 1)
    betas = [h.real(f"beta{k}", lo=0, hi=1, lo_strict=True) for k in range(N)]
    if not general_ladder:       # units whose subject does not depend on the ladder: T = 1 first (far fewer orderings to fork over)
        betas[0] = 1.0
    # (names are shared between the two systems built in one path so that they hold identical symbolic data)
    h._names = {k: v for k, v in h._names.items() if not k.startswith("chain") and not k.startswith("beta")}
    chains = [StubChain(h, k, betas[k], L) for k in range(N)]
    pt = par.ParallelTempering(chains)
    return par, sc, pt, chains, betas, L


def _canonical(n, labels):
    return 0


@unit("C08", quick=[dict(N=n, which=w) for n in (1, 2, 3, 4, 5, 6, 7) for w in ("tight_pairs", "uniform_pairs")] + [dict(N=n, which="tight_pairs") for n in (8, 9, 10)],
      thorough=[dict(N=11, which="tight_pairs"), dict(N=12, which="tight_pairs"), dict(N=8, which="uniform_pairs")],
      max_paths=400000, cost=3, explore_wall_s=3000)
def pairings_are_disjoint(h, N, which):
    import inference.mcmc.parallel as par
    h.covers(par.ParallelTempering.tight_pairs, par.ParallelTempering.uniform_pairs)
    pt = par.ParallelTempering.__new__(par.ParallelTempering)
    pt.N_chains = N
    pt.rng = stubs.SymRng(h, "pair")
    h.patch(par, both=True, choice=lambda seq: seq[h.choice_int("random.choice", 0, len(seq) - 1)])
    for name in (which,):
        pairs = [tuple(int(v) for v in p) for p in getattr(pt, name)()]
        flat = [v for p in pairs for v in p]
        h.same(f"{name}: every chain in at most one pair", len(flat), len(set(flat)))
        h.same(f"{name}: indices in range", all(0 <= v < N for v in flat), True)
        h.same(f"{name}: pairs join two different chains", all(a != b for a, b in pairs), True)
        h.same(f"{name}: as many pairs as possible", len(pairs), N // 2)


def _exchange_round(h, pt, sc, chains, betas, L, N, tag=""):
    """one swap() round, asserted against the exchange rule (labels of the checks are prefixed with `tag`)"""
    n_us0 = len([1 for k, v in pt.rng.log if k == "u"])
    class _Tagged:
        def __getattr__(self, name):
            f = getattr(h, name)
            if name in ("same", "true", "eq", "ge", "le"):
                return lambda label, *a, **k: f(tag + label, *a, **k)
            return f
    H = _Tagged() if tag else h
    before_pts = [c.get_last().copy() for c in chains]
    before_L = [L(p) for p in before_pts]
    att0, suc0 = np.array(pt.attempted_swaps).copy(), pt.successful_swaps.copy()
    order = []

    class _Counting(np.ndarray):      # the attempt counters, remembering the order in which pairs were counted
        def __setitem__(self, key, value):
            if isinstance(key, tuple) and len(key) == 2 and all(isinstance(k, (int, np.integer)) for k in key):
                order.append((int(key[0]), int(key[1])))
            np.ndarray.__setitem__(self, key, value)
    pt.attempted_swaps = np.array(pt.attempted_swaps).view(_Counting)
    pt.swap()
    sc.drain()
    us = [v for k, v in pt.rng.log if k == "u"][n_us0:]
    # the proposed pairs from the attempt counters; the uniform draws are consumed in the order in which the pairs are
    # processed, which is the order in which they were counted (falls back to index order if that was not observable)
    datt = np.asarray(pt.attempted_swaps) - att0
    pairs = [(i, j) for i in range(N) for j in range(N) if datt[i, j] == 1]
    seen = [p for k, p in enumerate(order) if p in pairs and p not in order[:k]]
    if sorted(seen) == sorted(pairs):
        pairs = seen
    elif len(pairs) > 1:
        raise mc.HarnessOutOfDate("cannot tell in which order the proposed pairs consumed their uniform draws")
    flat = [v for p in pairs for v in p]
    H.same("each chain in at most one proposed pair", len(flat), len(set(flat)))
    H.same("one uniform draw per proposed pair", len(us), len(pairs))
    touched = set()
    for (i, j), u in zip(pairs, us):
        ratio = h.exp((betas[i] - betas[j]) * (before_L[j] - before_L[i]))
        swapped = (pt.successful_swaps - suc0)[i, j] == 1
        if swapped:
            H.true(f"pair ({i},{j}) exchanged  =>  u <= exp((b_i-b_j)(L_j-L_i))", u <= ratio)
            H.eq(f"chain {i} now holds chain {j}'s previous point", chains[i].get_last(), before_pts[j])
            H.eq(f"chain {j} now holds chain {i}'s previous point", chains[j].get_last(), before_pts[i])
            H.eq(f"chain {i} log-probability re-expressed at its own temperature", chains[i].probs[-1], before_L[j] * betas[i])
            H.eq(f"chain {j} log-probability re-expressed at its own temperature", chains[j].probs[-1], before_L[i] * betas[j])
            touched |= {i, j}
        else:
            H.true(f"pair ({i},{j}) not exchanged  =>  u >= min(1, exp((b_i-b_j)(L_j-L_i)))", u >= ratio)
    H.same("successful swaps only among proposed pairs", int((pt.successful_swaps - suc0).sum()) <= len(pairs), True)
    for k in range(N):
        if k not in touched:
            H.eq(f"chain {k} untouched (point)", chains[k].get_last(), before_pts[k])
            H.eq(f"chain {k} untouched (log-probability)", chains[k].probs[-1], before_L[k] * betas[k])


@unit("C08", quick=[dict(N=2, cp=4), dict(N=3, cp=2), dict(N=2, cp=2, rounds=2)], thorough=[dict(N=3, cp=5), dict(N=4, cp=1), dict(N=3, cp=1, rounds=2)], max_paths=20000, cost=5)
def swap_is_metropolis_exchange(h, N, cp, rounds=1):
    import inference.mcmc.parallel as par
    h.covers(par.ParallelTempering.swap, par.tempering_process, par.ParallelTempering.__init__)
    par_, sc, pt, chains, betas, L = _system(h, N, lambda n, labels: h.choice_int("schedule", 0, n - 1), cp)
    try:
        pt.rng = stubs.SymRng(h, "swap")
        h.patch(par, both=True, choice=lambda seq: seq[h.choice_int("random.choice", 0, len(seq) - 1)])
        for r in range(rounds):
            _exchange_round(h, pt, sc, chains, betas, L, N, tag=(f"round {r}: " if rounds > 1 else ""))
        pt.shutdown()
        h.same("all workers terminated after shutdown", [t.finished for t in sc.tasks], [True] * N)
    finally:
        sc.abort_all()


@unit("C08", quick=[dict(N=2, n=2, cp=6), dict(N=3, n=1, cp=4)], thorough=[dict(N=2, n=2, cp=10), dict(N=3, n=2, cp=6)], max_paths=40000, cost=6)
def result_is_independent_of_the_schedule(h, N, n, cp):
    import inference.mcmc.parallel as par
    h.covers(par.ParallelTempering.take_steps, par.ParallelTempering.return_chains, par.ParallelTempering.shutdown, par.tempering_process)

    def scenario(chooser, tag):
        par_, sc, pt, chains, betas, L = _system(h, N, chooser, cp, tag, general_ladder=False)
        try:
            pt.rng = stubs.SymRng(h, "swap" + tag)
            h.patch(par, both=True, choice=lambda seq: seq[0])
            pt.take_steps(n)
            pt.swap()
            pt.take_steps(1)
            out = pt.return_chains()
            steps = [c.steps for c in out]
            pt.shutdown()
            done = [t.finished for t in sc.tasks]
            return [c.state() for c in out], steps, done, [v for k, v in pt.rng.log if k == "u"], sc
        finally:
            sc.abort_all()
    sa, stepsa, donea, ua, sca = scenario(lambda k, labels: h.choice_int("schedule", 0, k - 1), "A")
    h._names = {k: v for k, v in h._names.items() if k.startswith("schedule")}
    sb, stepsb, doneb, ub, scb = scenario(_canonical, "B")
    if h.sym:
        for x, y in zip(ua, ub):  # same random stream in both runs
            h.ctx.side.append(R(x) == R(y))
    h.same("every chain took exactly the requested number of steps", stepsa, [n + 1] * N)
    h.same("workers hand back one complete chain each", len(sa), N)
    h.same("all workers terminated after shutdown", donea, [True] * N)
    for k in range(N):
        h.eq(f"chain {k}: identical under the forked and the canonical schedule", sa[k], sb[k])


@unit("C08", quick=[dict(N=2, cp=4), dict(N=3, cp=5)], thorough=[dict(N=4, cp=5)], max_paths=20000, cost=5)
def chains_are_handed_back_in_ladder_order(h, N, cp):
    """return_chains under every order in which the workers deliver their chains (the interleaving choice points are spent
    on the hand-back itself), for any ladder including repeated temperatures: slot k of the returned list holds the chain of
    worker k, complete, and every worker still terminates on shutdown"""
    import inference.mcmc.parallel as par
    h.covers(par.ParallelTempering.return_chains, par.ParallelTempering.shutdown, par.tempering_process)
    par_, sc, pt, chains, betas, L = _system(h, N, lambda k, labels: h.choice_int("schedule", 0, k - 1), cp)
    try:
        out = pt.return_chains()
        h.same("one chain per worker", len(out), N)
        h.same("slot k holds worker k's chain", [getattr(c, "k", None) for c in out], list(range(N)))
        for k, c in enumerate(out[:N]):
            h.eq(f"chain {k} handed back complete", c.state(), chains[k].state())
        pt.shutdown()
        h.same("all workers terminated after shutdown", [t.finished for t in sc.tasks], [True] * N)
    finally:
        sc.abort_all()


@unit("C08", quick=[dict(lo=1, hi=16), dict(lo=17, hi=40), dict(lo=41, hi=64)], cost=3)
def advance_arithmetic_for_all_n(h, lo, hi):
    import inference.mcmc.parallel as par
    import pyint
    h.covers(par.ParallelTempering.advance)
    calls = {"self.take_steps": lambda args: {"steps": args[0]}, "self.swap": lambda args: {"swaps": 1}}
    if h.sym:
        n = z3.Int("n")
        h.ctx.inputs["n"] = n
        h.ctx.side.append(n >= 0)
        si = h.choice_int("swap_interval", lo, hi)
        paths, it = pyint.encode_method(par.ParallelTempering.advance, {"n": n, "swap_interval": si}, calls, counters=("steps", "swaps"))
        k = h.choice_int("path", 0, len(paths) - 1)
        p = paths[k]
        for c in p.pc:
            h.ctx.side.append(c)
        h.true("every chain advanced by exactly n steps", p.counters["steps"] == n)
        h.true("swap rounds == n // swap_interval", p.counters["swaps"] == n / si)
        if si in (lo, hi):
            for nv in (0, 1, si - 1, si, 10 * si + 3, 50 * si, 51 * si + 1, 777):
                cnt = {"steps": 0, "swaps": 0}
                pt = par.ParallelTempering.__new__(par.ParallelTempering)
                pt.take_steps = lambda m, cnt=cnt: cnt.__setitem__("steps", cnt["steps"] + m)
                pt.swap = lambda cnt=cnt: cnt.__setitem__("swaps", cnt["swaps"] + 1)
                import io, contextlib
                with contextlib.redirect_stdout(io.StringIO()):
                    pt.advance(nv, swap_interval=si)
                enc = None
                for q in paths:
                    s = z3.Solver()
                    s.add(n == nv, *q.pc)
                    if s.check() == z3.sat:
                        m = s.model()
                        enc = (m.eval(q.counters["steps"], model_completion=True).as_long(), m.eval(q.counters["swaps"], model_completion=True).as_long())
                h.same(f"encoder agrees with the real method for n={nv}, swap_interval={si}", enc, (cnt["steps"], cnt["swaps"]))
    else:
        nv = int(round(h.values.get("n", 0)))
        si = int(round(h.values.get("swap_interval", lo)))
        cnt = {"steps": 0, "swaps": 0}
        pt = par.ParallelTempering.__new__(par.ParallelTempering)
        pt.take_steps = lambda m: cnt.__setitem__("steps", cnt["steps"] + m)
        pt.swap = lambda: cnt.__setitem__("swaps", cnt["swaps"] + 1)
        import io, contextlib
        with contextlib.redirect_stdout(io.StringIO()):
            pt.advance(nv, swap_interval=si)
        h.same("every chain advanced by exactly n steps", cnt["steps"], nv)
        h.same("swap rounds == n // swap_interval", cnt["swaps"], nv // si)
