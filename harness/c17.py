"""C17 — GP linear inversion returns the exact linear-Gaussian posterior"""
import numpy as np
import z3

from symnp import stubs
from symnp.core import ozeros
from symnp.harness import unit
from harness import gp_common as gc

EXPLANATION = (
    "GpLinearInverter (__init__, calculate_posterior, calculate_posterior_mean, marginal_likelihood, "
    "marginal_likelihood_gradient) is executed with symbolic model matrix A (under-, over- and exactly determined "
    "shapes), data, errors, and an abstract prior kernel K = Lk.Lk^T / abstract mean (entries uninterpreted smooth "
    "functions of the hyper-parameters with derivative symbols for the gradient variant); scipy.linalg.solve is exact "
    "Gaussian elimination, cholesky/solve_triangular exact contract stubs. Asserted: the returned covariance solves "
    "(I + K A^T S^-1 A) Sigma = K and equals both (K^-1 + A^T S^-1 A)^-1 and the Kalman/Woodbury form K - K A^T (A K "
    "A^T + S)^-1 A K (explicit adjugate inverses); mean == m + Sigma A^T S^-1 (y - A m); mean-only path agrees; Sigma "
    "symmetric, PSD and K - Sigma PSD (diagonals and 2x2 determinants >= 0); evidence == -1/2 r^T J^-1 r - 1/2 log det "
    "J with J = A K A^T + S, r = y - A m; evidence gradient == symbolic derivative, same value."
    ' Call-sequence unit: posterior, the caller overwrites entries of the same hyper-parameter array in place, posterior / mean-only path again; every answer is the closed form for the values current at the time of the call.'
)
BOUNDS = {"quick": "<=2 parameters, <=2 data (shapes 1x2, 2x1, 2x2)", "thorough": "adds 3 data x 2 parameters (posterior identities) and the 2x2 evidence gradient; 3 parameters are outside reach (normal forms of 3x3 adjugate inverses did not finish in 20 min)"}
ASSUMPTIONS = [
    "floats as reals; pivots of the Gaussian elimination non-zero (I + K W is non-singular for SPD K, PSD W)",
    "prior covariance K = Lk.Lk^T with positive diagonal (any SPD matrix)",
    "evidence compared up to the fixed -n/2 log(2 pi) constant",
    "2x2 determinant signs are decided through certified closed forms (identity by normal form + sign of the closed form by the solver); the step 'a == b and b >= 0 imply a >= 0' is trusted",
]


def _setup(h, m, p, theta_dep=False, pm=1, pk=1):
    import inference.gp.inversion as iv
    cv, mn = gc.patch_cov(h)
    h.patch(iv, solve=stubs.gauss_solve, solve_triangular=stubs.solve_triangular, cholesky=stubs.cholesky, zeros=ozeros)
    h.covers(iv.GpLinearInverter.__init__, iv.GpLinearInverter.calculate_posterior, iv.GpLinearInverter.calculate_posterior_mean,
             iv.GpLinearInverter.marginal_likelihood, iv.GpLinearInverter.marginal_likelihood_gradient)
    dt = object if h.sym else float
    A = h.real("A", (m, p))
    y = h.real("y", m)
    e = h.real("yerr", m, pos=True)
    pos = h.real("pos", (p, 1))
    if theta_dep:
        fns = {(i, j): gc.smooth_ufunc(h, f"Lk{i}{j}", pk, seed=2 * i + j, positive=(i == j)) for i in range(p) for j in range(i + 1)}
        mfs = [gc.smooth_ufunc(h, f"pm{i}", pm, seed=7 + i) for i in range(p)]

        def Lat(t):
            Lm = ozeros((p, p)) if h.sym else np.zeros((p, p))
            dLm = [ozeros((p, p)) if h.sym else np.zeros((p, p)) for _ in range(pk)]
            for (i, j), (F, dF) in fns.items():
                Lm[i, j] = F(t)
                if i == j and h.sym:
                    h.ctx.side.append(Lm[i, j].e > 0)
                for k in range(pk):
                    dLm[k][i, j] = dF[k](t)
            return Lm, dLm

        def mean_at(t):
            return np.array([F(t) for F, dF in mfs], dtype=dt), [np.array([dF[k](t) for F, dF in mfs], dtype=dt) for k in range(pm)]
    else:
        Lk = ozeros((p, p)) if h.sym else np.zeros((p, p))
        for i in range(p):
            for j in range(i + 1):
                Lk[i, j] = h.real(f"Lk_{i}_{j}", pos=(i == j))
        mvec = h.real("pmean", p)

        def Lat(t):
            return Lk, [0 * Lk] * pk

        def mean_at(t):
            return mvec, [0 * mvec] * pm

    class AbsKernel(cv.CovarianceFunction):
        bounds = None
        n_params = pk
        hyperpar_labels = [f"k{i}" for i in range(pk)]

        def pass_spatial_data(self, xx):
            pass

        def estimate_hyperpar_bounds(self, yy):
            pass

        def __call__(self, u, v, theta):
            raise NotImplementedError

        def build_covariance(self, theta):
            Lm, _ = Lat(theta)
            return Lm @ Lm.T

        def covariance_and_gradients(self, theta):
            Lm, dLm = Lat(theta)
            return Lm @ Lm.T, [d @ Lm.T + Lm @ d.T for d in dLm]

    class AbsMean(mn.MeanFunction):
        bounds = None
        n_params = pm
        hyperpar_labels = [f"m{i}" for i in range(pm)]

        def pass_spatial_data(self, xx):
            pass

        def estimate_hyperpar_bounds(self, yy):
            pass

        def __call__(self, q, theta):
            raise NotImplementedError

        def build_mean(self, theta):
            return mean_at(theta)[0]

        def mean_and_gradients(self, theta):
            return mean_at(theta)

    inv = iv.GpLinearInverter(y=y, y_err=e, model_matrix=A, parameter_spatial_positions=pos,
                              prior_covariance_function=AbsKernel(), prior_mean_function=AbsMean())
    th = h.real("th", pm + pk)
    Lm, _ = Lat(th[pm:])
    K = Lm @ Lm.T
    mu0 = mean_at(th[:pm])[0]
    return iv, inv, A, y, e, th, K, mu0, pm


def _inv(h, M):
    return stubs.adj_inverse(M) if h.sym else np.linalg.inv(np.asarray(M, dtype=float))


SHAPES_Q = [dict(m=1, p=2), dict(m=2, p=1), dict(m=2, p=2), dict(m=1, p=1)]
SHAPES_T = [dict(m=3, p=2)]


@unit("C17", quick=SHAPES_Q, thorough=SHAPES_T, cost=5, timeout_ms=60000)
def posterior_is_linear_gaussian_closed_form(h, m, p):
    iv, inv, A, y, e, th, K, mu0, pm = _setup(h, m, p)
    mean, cov = inv.calculate_posterior(th)
    Sinv = np.diag(1 / e ** 2)
    S = np.diag(e ** 2)
    W = A.T @ Sinv @ A
    I = np.eye(p)
    h.eq("(I + K A^T S^-1 A) Sigma == K", (I + K @ W) @ cov, K)
    h.eq("Sigma == (K^-1 + A^T S^-1 A)^-1", cov, _inv(h, _inv(h, K) + W))
    J = A @ K @ A.T + S
    kal = K - K @ A.T @ _inv(h, J) @ A @ K
    h.eq("Sigma == K - K A^T (A K A^T + S)^-1 A K", cov, kal)
    mref = mu0 + kal @ (A.T @ (Sinv @ (y - A @ mu0)))
    h.eq("mean == m + Sigma A^T S^-1 (y - A m)", mean, mref)
    h.eq("calculate_posterior_mean == mean of the full path", inv.calculate_posterior_mean(th), mean)
    h.eq("Sigma symmetric", cov, cov.T)


@unit("C17", quick=[dict(m=1, p=1), dict(m=1, p=2), dict(m=2, p=1), dict(m=2, p=2)], cost=8, timeout_ms=120000, thorough_timeout_ms=300000)
def posterior_covariance_psd_and_below_prior(h, m, p):
    iv, inv, A, y, e, th, K, mu0, pm = _setup(h, m, p)
    mean, cov = inv.calculate_posterior(th)
    D = K - cov
    h.ge("diag(Sigma) >= 0", np.diag(cov), 0.0)
    h.ge("diag(K - Sigma) >= 0 (no larger than the prior)", np.diag(D), 0.0)
    if p == 2:
        # 2x2 determinants by certificate: the code's value equals (identity, decided by normal form) an
        # expression whose sign is manifest (numerator a square, denominator 1 + sum of squares), and the
        # solver decides the sign of that expression.
        Lk = None
        detK = K[0, 0] * K[1, 1] - K[0, 1] * K[1, 0]
        Sinv = np.diag(1 / e ** 2)
        W = A.T @ Sinv @ A
        Mm = np.eye(2) + K @ W
        detM = Mm[0, 0] * Mm[1, 1] - Mm[0, 1] * Mm[1, 0]
        quad = [A[i] @ K @ A[i] for i in range(m)]          # a_i^T K a_i  (= |Lk^T a_i|^2 >= 0)
        trKW = sum(quad[i] / e[i] ** 2 for i in range(m))
        detW = sum((A[i, 0] * A[k, 1] - A[i, 1] * A[k, 0]) ** 2 / (e[i] ** 2 * e[k] ** 2) for i in range(m) for k in range(i + 1, m))
        sos = 1 + trKW + detK * detW
        h.eq("certificate: det(I + K W) == 1 + tr(K W) + det K det W", detM, sos)
        h.ge("certificate: a_i^T K a_i >= 0", np.array(quad, dtype=object if h.sym else float), 0.0)
        h.ge("certificate: det K > 0 (K = Lk Lk^T)", detK, 0.0, strict=True)
        detS = cov[0, 0] * cov[1, 1] - cov[0, 1] * cov[1, 0]
        h.eq("det(Sigma) == det K / det(I + K W)", detS, detK / sos)
        if h.sym:
            # sign of the certified closed form, with the non-negative building blocks as fresh symbols
            q_ = [h.real(f"cert_q{i}", nonneg=True) for i in range(m)]
            dk_ = h.real("cert_detK", pos=True)
            dw_ = h.real("cert_detW", nonneg=True)
            h.ge("det K / (1 + sum q_i/e_i^2 + det K det W) >= 0 for q_i, det W >= 0, det K > 0",
                 dk_ / (1 + sum(q_[i] / e[i] ** 2 for i in range(m)) + dk_ * dw_), 0.0)
        Jm = A @ K @ A.T + np.diag(e ** 2)
        detD = D[0, 0] * D[1, 1] - D[0, 1] * D[1, 0]
        if m == 1:
            h.eq("det(K - Sigma) == 0 (rank-one update)", detD, 0.0)
        else:
            detJ = Jm[0, 0] * Jm[1, 1] - Jm[0, 1] * Jm[1, 0]
            detA = A[0, 0] * A[1, 1] - A[0, 1] * A[1, 0]
            cross = detA * detA * detK                      # |Lk^T a_1 x Lk^T a_2|^2 = det(A)^2 det(K)
            jsos = e[0] ** 2 * e[1] ** 2 + e[0] ** 2 * quad[1] + e[1] ** 2 * quad[0] + cross
            h.eq("certificate: det(A K A^T + S) == e1^2 e2^2 + e1^2 q2 + e2^2 q1 + det(A)^2 det K", detJ, jsos)
            h.eq("det(K - Sigma) == det(K)^2 det(A)^2 / det(A K A^T + S)", detD, detK * detK * detA * detA / jsos)
            if h.sym:
                h.ge("det K^2 det A^2 / (e1^2 e2^2 + e1^2 q2 + e2^2 q1 + det A^2 det K) >= 0",
                     dk_ * dk_ * detA * detA / (e[0] ** 2 * e[1] ** 2 + e[0] ** 2 * q_[1] + e[1] ** 2 * q_[0] + detA * detA * dk_), 0.0)
    if not h.sym and p == 2:
        detS = cov[0, 0] * cov[1, 1] - cov[0, 1] * cov[1, 0]
        detD = D[0, 0] * D[1, 1] - D[0, 1] * D[1, 0]
        h.ge("det(Sigma) >= 0", detS, 0.0)
        h.ge("det(K - Sigma) >= 0", detD, 0.0)


@unit("C17", quick=[dict(m=1, p=2), dict(m=2, p=1), dict(m=2, p=2)], cost=6, timeout_ms=60000)
def evidence_is_mvn_logpdf(h, m, p):
    iv, inv, A, y, e, th, K, mu0, pm = _setup(h, m, p)
    h.allow(np.linalg.LinAlgError)
    val = inv.marginal_likelihood(th)
    J = A @ K @ A.T + np.diag(e ** 2)
    r = y - A @ mu0
    detJ = stubs.det(J) if h.sym else np.linalg.det(J)
    ref = -0.5 * (r @ (_inv(h, J) @ r)) - 0.5 * h.log(detJ)
    h.eq("marginal_likelihood == log N(y; A m, A K A^T + S) + const", val, ref)


@unit("C17", quick=[dict(m=1, p=2), dict(m=2, p=1)], thorough=[dict(m=2, p=2)], cost=8, timeout_ms=60000)
def evidence_gradient_is_derivative(h, m, p):
    iv, inv, A, y, e, th, K, mu0, pm = _setup(h, m, p, theta_dep=True, pm=2, pk=1)
    h.allow(np.linalg.LinAlgError)
    v, g = inv.marginal_likelihood_gradient(th)
    h.eq("value-and-gradient variant returns the same value", v, inv.marginal_likelihood(th))
    h.is_gradient("marginal_likelihood_gradient == d value / d theta", lambda t: inv.marginal_likelihood(t), th, g)


@unit("C17", quick=[dict(m=2, p=1), dict(m=1, p=2)], cost=5, timeout_ms=60000, families=1)
def repeated_calls_follow_the_current_hyperparameters(h, m, p):
    """a call sequence on one inverter: posterior at theta, the caller overwrites entries of the same array in place,
    posterior / mean-only path / evidence again.  Every answer must be the closed form for the values the array holds at
    the time of the call (the prior kernel and mean are uninterpreted functions of theta, so a stale factor shows)"""
    iv, inv, A, y, e, th, K, mu0, pm = _setup(h, m, p, theta_dep=True)
    dt = object if h.sym else float
    Sinv, S = np.diag(1 / e ** 2), np.diag(e ** 2)

    def closed_form(t):
        Km = inv.cov.build_covariance(t[pm:])
        m0 = inv.mean.build_mean(t[:pm])
        J = A @ Km @ A.T + S
        cov = Km - Km @ A.T @ _inv(h, J) @ A @ Km
        return m0 + cov @ (A.T @ (Sinv @ (y - A @ m0))), cov
    t = np.array(th, dtype=dt)
    mean, cov = inv.calculate_posterior(t)
    rm, rc = closed_form(t)
    h.eq("first call: mean", mean, rm)
    h.eq("first call: covariance", cov, rc)
    new = h.real("th_new", len(t))
    for k in range(len(t)):
        t[k] = new[k]                      # in place: same array object, new values
        mean, cov = inv.calculate_posterior(t)
        rm, rc = closed_form(t)
        h.eq(f"after overwriting theta[{k}] in place: mean", mean, rm)
        h.eq(f"after overwriting theta[{k}] in place: covariance", cov, rc)
        h.eq(f"after overwriting theta[{k}] in place: mean-only path", inv.calculate_posterior_mean(t), rm)
    t2 = np.array(th, dtype=dt)            # back to the first values through a fresh array
    h.eq("fresh array with the first values: mean-only path", inv.calculate_posterior_mean(t2), closed_form(t2)[0])
    h.eq("fresh array with the first values: covariance", inv.calculate_posterior(t2)[1], closed_form(t2)[1])


@unit("C17", quick=[dict(m=2, p=2)], thorough=[dict(m=2, p=3)], cost=5, timeout_ms=60000)
def inverters_are_independent_objects(h, m, p):
    """two inverters built one after the other with the *default* prior (kernel and mean not given), on different
    parameter positions: what the first one returns (both posterior paths, evidence, evidence gradient) must not change
    when the second one is constructed, and the second must be unaffected by the first.  Real SquaredExponential /
    ConstantMean code on symbolic positions"""
    import inference.gp.inversion as iv
    cv, mn = gc.patch_cov(h)
    h.patch(iv, solve=stubs.gauss_solve, solve_triangular=stubs.solve_triangular, cholesky=stubs.cholesky, zeros=ozeros)
    h.allow(np.linalg.LinAlgError)
    A = h.real("A", (m, p))
    y = h.real("y", m)
    e = h.real("yerr", m, pos=True)
    pos1 = h.real("pos1", (p, 1))
    pos2 = h.real("pos2", (p, 1))
    th = h.real("th", 3)          # ConstantMean (1) + SquaredExponential in one dimension (2)
    first = iv.GpLinearInverter(y=y, y_err=e, model_matrix=A, parameter_spatial_positions=pos1)
    before = (first.calculate_posterior(th), first.calculate_posterior_mean(th), first.marginal_likelihood(th))
    second = iv.GpLinearInverter(y=y, y_err=e, model_matrix=A, parameter_spatial_positions=pos2)
    second.calculate_posterior(th)
    after = (first.calculate_posterior(th), first.calculate_posterior_mean(th), first.marginal_likelihood(th))
    h.eq("first inverter: posterior mean unchanged by constructing a second inverter", after[0][0], before[0][0])
    h.eq("first inverter: posterior covariance unchanged", after[0][1], before[0][1])
    h.eq("first inverter: mean-only path unchanged", after[1], before[1])
    h.eq("first inverter: evidence unchanged", after[2], before[2])
    alone = iv.GpLinearInverter(y=y, y_err=e, model_matrix=A, parameter_spatial_positions=pos2, prior_covariance_function=cv.SquaredExponential(),
                                prior_mean_function=mn.ConstantMean())
    h.eq("second inverter == an inverter with its own explicitly given prior objects", second.calculate_posterior(th)[0], alone.calculate_posterior(th)[0])
