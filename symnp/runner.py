"""./check driver: runs the units of one property in parallel sub-processes, aggregates the
verdict, writes the evidence file, applies the known-findings list and sets the exit code.

exit 0  property held on everything explored (KNOWN-FINDING lines allowed)
exit 1  reproduced violation not listed in known_findings.txt (VIOLATION line printed)
exit 2  inconclusive (solver unknown, engine limitation, vacuous harness, crashed unit)
"""
import argparse
import hashlib
import importlib
import json
import os
import subprocess
import sys
import tempfile
import time

HERE = os.path.dirname(os.path.dirname(os.path.abspath(__file__)))
PROPS = [f"C{i:02d}" for i in range(1, 21)]


def load_units(prop):
    from . import harness
    importlib.import_module(f"harness.{prop.lower()}")
    return harness.REGISTRY.get(prop, [])


def select(units, tier, filt=None):
    out = [u for u in units if tier == "thorough" or u.tier == "quick"]
    if filt:
        out = [u for u in out if filt in u.name]
    return out


def known_findings():
    path = os.path.join(HERE, "known_findings.txt")
    out = []
    if not os.path.exists(path):
        return out
    for line in open(path):
        line = line.strip()
        if not line.startswith("finding:"):
            continue
        head, _, desc = line[len("finding:"):].partition("::")
        kv = dict(tok.split("=", 1) for tok in head.split() if "=" in tok)
        out.append({"property": kv.get("property"), "unit": kv.get("unit", ""), "check": kv.get("check", ""), "desc": desc.strip()})
    return out


def is_known(kf, prop, unit, check):
    for k in kf:
        if k["property"] == prop and unit.startswith(k["unit"]) and check.startswith(k["check"]):
            return k
    return None


def run_one_unit_subprocess(prop, uname, tier, seed, wall_s, outdir):
    outfile = os.path.join(outdir, hashlib.md5(uname.encode()).hexdigest() + ".json")
    cmd = [sys.executable, "-m", "symnp.unitrun", prop, uname, tier, str(seed), outfile]
    p = subprocess.Popen(cmd, cwd=HERE, stdout=subprocess.PIPE, stderr=subprocess.STDOUT, text=True)
    return p, outfile, time.time() + wall_s


def main(argv=None):
    ap = argparse.ArgumentParser()
    ap.add_argument("prop")
    ap.add_argument("--tier", default=os.environ.get("VERIF_TIER", "quick"), choices=["quick", "thorough"])
    ap.add_argument("--replay")
    ap.add_argument("--units")
    ap.add_argument("--jobs", type=int, default=int(os.environ.get("VERIF_JOBS", "16")))
    ap.add_argument("--list", action="store_true")
    ap.add_argument("--no-evidence", action="store_true")
    a = ap.parse_args(argv)
    prop = a.prop.upper()
    seed = int(os.environ.get("VERIF_SEED", "0") or 0)
    t0 = time.time()

    if a.replay:
        return replay(prop, a.replay)

    units = select(load_units(prop), a.tier, a.units)
    if a.list:
        for u in units:
            print(u.tier, u.name)
        return 0
    if not units:
        print(f"no units registered for {prop}")
        return 2

    # longest first
    units.sort(key=lambda u: -u.opts.get("cost", 1))
    default_wall = 600 if a.tier == "quick" else 3600
    results, crashed = [], []
    with tempfile.TemporaryDirectory(prefix=f"verif_{prop}_") as outdir:
        queue = list(units)
        running = []
        while queue or running:
            while queue and len(running) < a.jobs:
                u = queue.pop(0)
                wall = u.opts.get("wall_s" if a.tier == "quick" else "thorough_wall_s", default_wall)
                running.append((u,) + run_one_unit_subprocess(prop, u.name, a.tier, seed, wall, outdir))
            time.sleep(0.05)
            still = []
            for (u, p, outfile, deadline) in running:
                rc = p.poll()
                if rc is None:
                    if time.time() > deadline:
                        p.kill()
                        p.wait()
                        crashed.append((u.name, "wall-clock limit exceeded (killed)"))
                    else:
                        still.append((u, p, outfile, deadline))
                    continue
                log = p.stdout.read()
                if rc == 0 and os.path.exists(outfile):
                    results.append(json.load(open(outfile)))
                else:
                    crashed.append((u.name, f"unit process exit {rc}: {log[-1500:]}"))
            running = still

    return finish(prop, a.tier, seed, results, crashed, time.time() - t0, a.no_evidence, partial=bool(a.units))


def finish(prop, tier, seed, results, crashed, wall, no_evidence=False, partial=False):
    kf = known_findings()
    violations, known, inconclusive = [], [], []
    for r in results:
        seen_checks = set()
        for v in r["violations"]:
            base = v["check"].split("~")[0]
            if base in seen_checks:  # same assertion failing on another path of the same unit
                continue
            seen_checks.add(base)
            k = is_known(kf, prop, r["unit"], v["check"])
            (known if k else violations).append((r, v, k))
        for m in r["inconclusive"]:
            inconclusive.append((r["unit"], m))
    for name, msg in crashed:
        inconclusive.append((name, msg))

    tot = lambda key: sum(r[key] for r in results)  # noqa: E731
    obligations, unsat, sat, unknown = tot("obligations"), tot("unsat"), tot("sat"), tot("unknown")
    covered, stubs, assumptions, samples = {}, [], [], []
    for r in results:
        covered.update(r["covered"])
        for s in r["stubs"]:
            if s not in stubs:
                stubs.append(s)
        for s in r["assumptions"]:
            if s not in assumptions:
                assumptions.append(s)
    for r in sorted(results, key=lambda r: (hash((r["unit"], seed)) % 1000)):
        for s in r["samples"][:1]:
            if len(samples) < 4:
                samples.append({"unit": r["unit"], **s})

    os.makedirs(os.path.join(HERE, "replays"), exist_ok=True)
    lines = []
    for (r, v, k) in known:
        lines.append(f"KNOWN-FINDING: property={prop} unit={r['unit']} check={v['check']} :: {k['desc']}")
    for (r, v, _) in violations:
        blob = {"property": prop, "unit": r["unit"], "check": v["check"], "inputs": v["inputs"],
                "uf_tables": v.get("uf_tables", {}), "detail": v["detail"], "decisions": v.get("decisions", "")}
        hsh = hashlib.sha1(json.dumps(blob, sort_keys=True).encode()).hexdigest()[:12]
        path = os.path.join(HERE, "replays", f"{prop}-{hsh}.json")
        json.dump(blob, open(path, "w"), indent=1)
        lines.append(f"VIOLATION property={prop} replay={path}")
        lines.append(f"  unit={r['unit']} check={v['check']} :: {v['detail'][:400]}")

    meta = importlib.import_module(f"harness.{prop.lower()}")
    explanation = getattr(meta, "EXPLANATION", "")
    bounds = getattr(meta, "BOUNDS", {})
    ev = {
        "property_id": prop, "tier": tier, "seed": seed, "level": "other",
        "coverage": {
            "explanation": explanation,
            "technique": "symbolic execution of the real /repo code on z3-backed numpy object arrays; one SMT query per assertion per path (z3 qfnra-nlsat after Ackermann abstraction of transcendental/uninterpreted applications with guarded axiom instances); sat models replayed on the real code with floats",
            "functions_encoded": covered,
            "bounds": bounds.get(tier, bounds) if isinstance(bounds, dict) else bounds,
            "stubs_and_shims": stubs,
            "units": [{"unit": r["unit"], "paths": r["paths"], "reachable_paths": r["reachable_paths"], "reachable_paths_noaxioms": r.get("reachable_paths_noaxioms", 0), "aborted": r["aborted"],
                       "obligations": r["obligations"], "unsat": r["unsat"], "sat": r["sat"], "unknown": r["unknown"],
                       "wall_s": r["wall_s"], "solver_s": r["solver"].get("solver_s"), "queries": r["solver"].get("queries")}
                      for r in results],
            "paths": tot("paths"),
            "obligations": obligations, "discharged": unsat,
            "sat": sat, "unknown": unknown,
            "evaluations": sum(r["solver"].get("queries", 0) for r in results),
            "distinct_nontrivial": tot("distinct"),
            "rule": "evaluations = solver queries issued (branch feasibility + reachability twins + obligations); an obligation is one assertion on one execution path; distinct_nontrivial counts obligations with distinct (name, negated-goal term, hypothesis set) that were not closed by term simplification alone",
            "samples": samples,
            "solver_wall_s": round(sum(r["solver"].get("solver_s", 0) for r in results), 2),
            "inconclusive": [f"{u}: {m[:300]}" for u, m in inconclusive][:40],
            "known_findings_reported": [f"{r['unit']}::{v['check']}" for (r, v, k) in known],
            "trusted_base": ["z3 5.1.0 (nlsat)", "symnp engine (/verif/symnp)", "numpy object-dtype loops", "CPython"],
            "exhaustive": False,
        },
        "assumptions": assumptions + list(getattr(meta, "ASSUMPTIONS", [])),
        "wall_s": round(wall, 2),
        "violations": len(violations),
    }
    if not no_evidence and not partial:
        os.makedirs(os.path.join(HERE, "evidence"), exist_ok=True)
        json.dump(ev, open(os.path.join(HERE, "evidence", f"{prop}.json"), "w"), indent=1)

    print(f"[{prop} {tier}] units={len(results)} paths={tot('paths')} obligations={obligations} unsat={unsat} sat={sat} unknown={unknown} "
          f"queries={ev['coverage']['evaluations']} wall={wall:.1f}s")
    for r in sorted(results, key=lambda r: r["unit"]):
        flag = "ok" if not (r["violations"] or r["inconclusive"]) else ("VIOL" if r["violations"] else "INCONCLUSIVE")
        print(f"  {flag:12s} {r['unit']}: paths={r['paths']} aborted={r['aborted']} obl={r['obligations']} unsat={r['unsat']} sat={r['sat']} unk={r['unknown']} {r['wall_s']}s")
    for ln in lines:
        print(ln)
    for u, m in inconclusive[:30]:
        print(f"INCONCLUSIVE {prop} {u}: {m[:1200]}")
    if violations:
        return 1
    if inconclusive:
        return 2
    return 0


def replay(prop, path):
    from .harness import replay_unit
    blob = json.load(open(path))
    units = [u for u in load_units(prop) if u.name == blob["unit"]]
    if not units:
        print(f"unit {blob['unit']} not found")
        return 2
    checks, exc = replay_unit(units[0], blob["inputs"], blob.get("uf_tables"))
    failed = False
    for n, ok, detail in checks:
        mark = "ok  " if ok else "FAIL"
        print(f"  {mark} {n} {detail}")
        if n == blob["check"] and not ok:
            failed = True
    if exc is not None:
        print(f"  exception: {type(exc).__name__}: {exc}")
        if blob["check"].startswith("no_exception:") and type(exc).__name__ == blob["check"].split(":", 1)[1]:
            failed = True
    if failed:
        print(f"VIOLATION property={prop} replay={path}")
        return 1
    print("replay: the recorded check passes on the current tree")
    return 0


if __name__ == "__main__":
    sys.exit(main())
