"""dual-mode harness context.

A *unit* is a function `unit(h, **params)` that builds inputs through `h`, calls the real
inference-tools code and states assertions through `h`.  The same unit runs

* symbolically (`h.sym`): inputs are z3-backed proxies, assertions become solver obligations
  (one per assertion per path), and
* concretely (replay): inputs are the floats of a solver model, the real code runs on real
  numpy/scipy/LAPACK (only RNG / clock / process / file stubs stay), assertions are evaluated
  numerically.  A solver `sat` is reported as a violation only if the replay fails the same
  assertion.
"""
import os
from fractions import Fraction
import types
import hashlib
import inspect
import math
import time
import traceback

import numpy as np
import z3

from . import funcs
from .core import (Ctx, PathAbort, Realification, SymReal, SymBool, R, B, lift, explore,
                   PI, SQRT2, SQRTPI, SQRT3, LOG2PI, LOG2, LOGPI, CONST_VALUES, exprs)
from .diff import diff
from .solve import solve, prove, to_smt2, STATS, free_vars

REGISTRY = {}


class ReplayMismatch(Exception):
    pass


class Unit:
    def __init__(self, prop, fn, params, tier, opts):
        self.prop, self.fn, self.params, self.tier, self.opts = prop, fn, dict(params), tier, dict(opts)
        ps = ",".join(f"{k}={v}" for k, v in self.params.items())
        self.name = f"{fn.__name__}[{ps}]" if ps else fn.__name__


def unit(prop, quick=({},), thorough=None, **opts):
    """register a unit for property `prop`.  `quick` / `thorough` are lists of parameter dicts;
    thorough defaults to quick.  thorough always *includes* the quick instances."""
    def deco(fn):
        lst = REGISTRY.setdefault(prop, [])
        seen = set()
        for p in quick:
            u = Unit(prop, fn, p, "quick", opts)
            seen.add(u.name)
            lst.append(u)
        for p in (thorough or ()):
            u = Unit(prop, fn, p, "thorough", opts)
            if u.name not in seen:
                lst.append(u)
        return fn
    return deco


class Obligation:
    __slots__ = ("name", "hyps", "neg", "robust", "kind", "status", "time", "meta", "pairs")

    def __init__(self, name, hyps, neg, robust=None, kind="assert", meta=None):
        self.name, self.hyps, self.neg, self.robust, self.kind = name, hyps, neg, robust, kind
        self.status, self.time, self.meta = None, 0.0, meta
        self.pairs = None


def _absz(e):
    return z3.If(e >= 0, e, -e)


class H:
    def __init__(self, ctx=None, values=None, uf_tables=None, family_index=0, fd_scale=1.0):
        self.sym = ctx is not None
        self.ctx = ctx
        self.values = values or {}
        self.uf_tables = uf_tables or {}
        self.family_index = family_index
        self.obligations = []
        self.concrete_checks = []  # (name, ok, detail)
        self.covered = {}
        self.stubs = []
        self.assumptions_txt = []
        self._patches = []
        self._auto_done = set()
        self.uf_family = {}
        self._names = {}
        self.uf_calls = {}
        self.allowed_exc = ()
        self.fd_scale = fd_scale

    # ------------------------------------------------------------------ bookkeeping
    def covers(self, *fns):
        for f in fns:
            try:
                src = inspect.getsource(f)
                q = getattr(f, "__qualname__", getattr(f, "__name__", str(f)))
                m = getattr(f, "__module__", "")
                self.covered[f"{m}.{q}"] = hashlib.sha256(src.encode()).hexdigest()[:16]
            except (OSError, TypeError):
                pass

    def note_assumption(self, txt):
        if txt not in self.assumptions_txt:
            self.assumptions_txt.append(txt)

    def allow(self, *exc):
        self.allowed_exc = tuple(exc)

    def patch(self, module, both=False, **names):
        """replace names in `module` (symbolic mode only unless both=True)"""
        if not (self.sym or both):
            return
        if self.sym and isinstance(module, types.ModuleType) and id(module) not in self._auto_done:
            self._auto_done.add(id(module))
            from . import stubs as _st
            auto = _st.autopatch(self, module)
            auto = {k: v for k, v in auto.items() if k not in names}
            if auto:
                self.patch(module, **auto)
        for k, v in names.items():
            missing = object()
            old = module.__dict__.get(k, missing) if hasattr(module, "__dict__") else getattr(module, k, missing)
            self._patches.append((module, k, old, missing))
            setattr(module, k, v)
            tag = f"{getattr(module, '__name__', type(module).__name__)}.{k}"
            if tag not in self.stubs:
                self.stubs.append(tag)

    def close(self):
        for module, k, old, missing in reversed(self._patches):
            if old is missing:
                try:
                    delattr(module, k)
                except AttributeError:
                    pass
            else:
                setattr(module, k, old)
        self._patches = []

    def _uniq(self, name):
        k = self._names.get(name, 0)
        self._names[name] = k + 1
        return name if k == 0 else f"{name}~{k}"

    # ------------------------------------------------------------------ inputs
    def _scalar(self, name, lo, hi, lo_strict, hi_strict):
        if self.sym:
            v = z3.Real(name)
            self.ctx.inputs[name] = v
            if lo is not None:
                self.ctx.side.append(v > R(lo) if lo_strict else v >= R(lo))
            if hi is not None:
                self.ctx.side.append(v < R(hi) if hi_strict else v <= R(hi))
            return SymReal(v)
        try:
            return float(self.values[name])
        except KeyError:
            raise ReplayMismatch(f"no value for input {name}") from None

    def real(self, name, shape=None, lo=None, hi=None, lo_strict=False, hi_strict=False, pos=False, nonneg=False):
        if pos:
            lo, lo_strict = 0, True
        if nonneg:
            lo, lo_strict = 0, False
        name = self._uniq(name)
        if shape is None:
            return self._scalar(name, lo, hi, lo_strict, hi_strict)
        shape = (shape,) if isinstance(shape, int) else tuple(shape)
        a = np.empty(shape, dtype=object if self.sym else float)
        for idx in np.ndindex(shape):
            a[idx] = self._scalar(name + "".join(f"_{i}" for i in idx), lo, hi, lo_strict, hi_strict)
        return a

    def fp(self, name, shape=None, lo=None, hi=None):
        """IEEE-754 double input(s): any finite double (optionally within [lo, hi]); rounding is part of the model"""
        from . import fp as _fp
        name = self._uniq(name)

        def one(nm):
            if self.sym:
                v = z3.FP(nm, _fp.F64)
                self.ctx.inputs[nm] = v
                self.ctx.side.append(_fp.is_finite(v))
                if lo is not None:
                    self.ctx.side.append(z3.fpGEQ(v, z3.FPVal(float(lo), _fp.F64)))
                if hi is not None:
                    self.ctx.side.append(z3.fpLEQ(v, z3.FPVal(float(hi), _fp.F64)))
                return _fp.SymFP(v)
            try:
                return float(self.values[nm])
            except KeyError:
                raise ReplayMismatch(f"no value for input {nm}") from None
        if shape is None:
            return one(name)
        shape = (shape,) if isinstance(shape, int) else tuple(shape)
        a = np.empty(shape, dtype=object if self.sym else float)
        for idx in np.ndindex(shape):
            a[idx] = one(name + "".join(f"_{i}" for i in idx))
        return a

    def const(self, name):
        table = {"pi": (PI, math.pi), "sqrt2": (SQRT2, math.sqrt(2)), "sqrtpi": (SQRTPI, math.sqrt(math.pi)),
                 "sqrt3": (SQRT3, math.sqrt(3)), "log2pi": (LOG2PI, math.log(2 * math.pi)),
                 "log2": (LOG2, math.log(2)), "logpi": (LOGPI, math.log(math.pi))}
        s, v = table[name]
        return SymReal(s) if self.sym else v

    def choice_int(self, name, lo, hi):
        """an arbitrary integer in [lo, hi] (forked; concrete int on each path)"""
        name = self._uniq(name)
        if lo == hi:
            return int(lo)
        if self.sym:
            k = int(lo) + self.ctx.choose_free(int(hi) - int(lo) + 1)
            self.ctx.free_choices[name] = k
            return k
        try:
            return int(round(self.values[name]))
        except KeyError:
            raise ReplayMismatch(f"no value for input {name}") from None

    def choice(self, name, options):
        return options[self.choice_int(name, 0, len(options) - 1)]

    def perm(self, name, n):
        pool = list(range(n))
        out = []
        while pool:
            out.append(pool.pop(self.choice_int(name, 0, len(pool) - 1)))
        return out

    def assume(self, cond, txt=None):
        """input precondition"""
        if txt:
            self.note_assumption(txt)
        if self.sym:
            self.ctx.side.append(B(cond) if not isinstance(cond, z3.BoolRef) else cond)
        else:
            if not bool(cond):
                raise ReplayMismatch(f"precondition violated on replay: {txt or ''}")

    def ufunc(self, name, nargs, family=None, record=True):
        """an arbitrary real function of `nargs` reals ("for all log-densities")"""
        calls = self.uf_calls.setdefault(name, [])
        if self.sym:
            f = z3.Function(name, *([z3.RealSort()] * nargs), z3.RealSort())

            def call(*args):
                flat = _flat_args(args)
                assert len(flat) == nargs, f"{name}: expected {nargs} args, got {len(flat)}"
                if record:
                    calls.append(list(flat))
                return SymReal(f(*[R(a) for a in flat]))
            call.decl = f
            self.uf_family[name] = (f, family)
            return call
        if family:
            fn = family[self.family_index % len(family)]

            def call(*args):
                flat = [float(a) for a in _flat_args(args)]
                if record:
                    calls.append(flat)
                return float(fn(*flat))
            return call
        table = self.uf_tables.get(name, [])

        def call(*args):
            flat = [float(a) for a in _flat_args(args)]
            if record:
                calls.append(flat)
            best, bd = None, None
            for a, v in table:
                d = max((abs(x - y) / (1 + abs(x) + abs(y)) for x, y in zip(a, flat)), default=0.0)
                if bd is None or d < bd:
                    best, bd = v, d
            if best is not None and bd < 1e-6:
                return float(best)
            # a smooth default away from the tabulated points
            return -0.5 * sum(x * x for x in flat)
        return call

    # ------------------------------------------------------------------ numeric helpers (both modes)
    exp = staticmethod(funcs.exp)
    log = staticmethod(funcs.log)
    sqrt = staticmethod(funcs.sqrt)
    erf = staticmethod(funcs.erf)
    erfcx = staticmethod(funcs.erfcx)
    tanh = staticmethod(funcs.tanh)

    def abs(self, x):
        return abs(x)

    def ite(self, c, a, b):
        if self.sym and isinstance(c, SymBool):
            return SymReal(z3.If(c.e, R(a), R(b)))
        return a if c else b

    # ------------------------------------------------------------------ assertions
    def _hyps(self):
        return self.ctx.hyps()

    def _record(self, name, neg, robust=None, kind="assert", meta=None):
        name = self._uniq(name)
        neg = z3.simplify(neg)
        if z3.is_false(neg):
            o = Obligation(name, [], neg, None, kind, meta)
            o.status = "unsat"
            self.obligations.append(o)
            return
        self.obligations.append(Obligation(name, self._hyps(), neg, robust, kind, meta))

    def _crecord(self, name, ok, detail=""):
        name = self._uniq(name)
        self.concrete_checks.append((name, bool(ok), detail))

    def eq(self, name, a, b, tol=1e-6, tol_abs=1e-10):
        if self.sym:
            ea, eb = _bexprs(a, b)
            neg = z3.Or(*[x != y for x, y in zip(ea, eb)]) if ea else z3.BoolVal(False)
            rob = z3.Or(*[_absz(x - y) > z3.RealVal("1/1000") * (1 + _absz(x) + _absz(y)) for x, y in zip(ea, eb)]) if ea else None
            self._record(name, neg, rob)
            if self.obligations and self.obligations[-1].status is None:
                self.obligations[-1].pairs = [(x, y) for x, y in zip(ea, eb) if not x.eq(y)]
        else:
            fa, fb = np.broadcast_arrays(np.asarray(a, dtype=float), np.asarray(b, dtype=float))
            if fa.size == 0:
                self._crecord(name, True)
                return
            with np.errstate(all="ignore"):
                diff_ = np.abs(fa - fb)
                err = diff_ / (1 + np.abs(fa) + np.abs(fb))
                # small quantities (far-tail probabilities ...) must also agree relatively
                rel_bad = (diff_ > 1e-3 * (np.abs(fa) + np.abs(fb))) & (diff_ > tol_abs)
            bad = ~(err <= tol) | rel_bad
            self._crecord(name, not bad.any(), f"max rel err {np.nanmax(err):.3g}; code={fa.ravel()[:6]} ref={fb.ravel()[:6]}")

    def le(self, name, a, b, tol=1e-9, strict=False):
        if self.sym:
            ea, eb = _bexprs(a, b)
            neg = z3.Or(*[(x >= y) if strict else (x > y) for x, y in zip(ea, eb)])
            rob = z3.Or(*[x > y + z3.RealVal("1/1000") * (1 + _absz(x) + _absz(y)) for x, y in zip(ea, eb)])
            self._record(name, neg, rob)
        else:
            fa, fb = np.broadcast_arrays(np.asarray(a, dtype=float), np.asarray(b, dtype=float))
            slack = tol * (1 + np.abs(fa) + np.abs(fb))
            ok = (fa < fb + slack) if not strict else (fa < fb + slack)
            self._crecord(name, bool(np.all(ok)), f"a={fa.ravel()[:6]} b={fb.ravel()[:6]}")

    def ge(self, name, a, b, tol=1e-9, strict=False):
        self.le(name, b, a, tol, strict)

    def true(self, name, cond):
        """cond: SymBool / bool / array of them (all must hold)"""
        if self.sym:
            cs = []
            for c in (cond.ravel() if isinstance(cond, np.ndarray) else (cond if isinstance(cond, (list, tuple)) else [cond])):
                cs.append(c if isinstance(c, z3.BoolRef) else B(c))
            self._record(name, z3.Or(*[z3.Not(c) for c in cs]) if cs else z3.BoolVal(False))
        else:
            self._crecord(name, bool(np.all(cond)), "")

    def same(self, name, a, b):
        """structural identity of two concrete python values (shapes, ints, labels)"""
        ok = _same(a, b)
        if self.sym:
            self._record(name, z3.BoolVal(not ok), kind="concrete", meta=None if ok else f"{a!r} != {b!r}")
        else:
            self._crecord(name, ok, "" if ok else f"{a!r} != {b!r}"[:300])

    def fail(self, name, msg=""):
        if self.sym:
            self._record(name, z3.BoolVal(True), kind="reach", meta=msg)
        else:
            self._crecord(name, False, msg)

    def is_gradient(self, name, f, x, g, tol=2e-4, args=()):
        """g[j] == d f(x) / d x[j]   (f: callable on an array like x, returns a scalar)"""
        x = np.asarray(x)
        g = np.asarray(g)
        if self.sym:
            y = f(x.copy(), *args)
            ye = R(y)
            gs = [R(v) for v in g.ravel()]
            xs = [R(v) for v in x.ravel()]
            if len(gs) != len(xs):
                self._record(name + ".shape", z3.BoolVal(True), kind="concrete", meta=f"gradient has {len(gs)} entries for {len(xs)} variables")
                return
            for j, (xe, ge) in enumerate(zip(xs, gs)):
                assert z3.is_const(xe), "is_gradient needs plain input variables"
                de = diff(ye, xe)
                rob = _absz(de - ge) > z3.RealVal("1/1000") * (1 + _absz(de) + _absz(ge))
                self._record(f"{name}[{j}]", de != ge, rob)
                if self.obligations and self.obligations[-1].status is None:
                    self.obligations[-1].pairs = [(de, ge)]
        else:
            xf = np.asarray(x, dtype=float)
            gf = np.asarray(g, dtype=float).ravel()
            if gf.size != xf.size:
                self._crecord(name + ".shape", False, f"gradient has {gf.size} entries for {xf.size} variables")
                return
            for j in range(xf.size):
                ests = []
                for step in (1e-5, 1e-6):
                    hh = step * self.fd_scale * (1 + abs(xf.ravel()[j]))
                    xp, xm = xf.copy().ravel(), xf.copy().ravel()
                    xp[j] += hh
                    xm[j] -= hh
                    ests.append((float(f(xp.reshape(xf.shape), *args)) - float(f(xm.reshape(xf.shape), *args))) / (2 * hh))
                fd = ests[0]
                consistent = abs(ests[0] - ests[1]) <= 1e-3 * (1 + abs(ests[0]))
                err = abs(fd - gf[j]) / (1 + abs(fd) + abs(gf[j]))
                ok = err <= tol or not consistent
                self._crecord(f"{name}[{j}]", ok, f"fd={fd:.8g} code={gf[j]:.8g} consistent={consistent}")


    # ------------------------------------------------------------------ derivatives as values
    def jacobian(self, f, x, rel_step=1e-6):
        """matrix d f_i / d x_j of a vector function f at x (x: flat array of plain inputs)"""
        x = np.asarray(x)
        if self.sym:
            y = np.asarray(f(x.copy())).ravel()
            J = np.empty((y.size, x.size), dtype=object)
            for i in range(y.size):
                memo = {}
                for j in range(x.size):
                    xe = R(x.ravel()[j])
                    assert z3.is_const(xe)
                    J[i, j] = SymReal(diff(R(y[i]), xe, memo if False else None))
            return J
        xf = np.asarray(x, dtype=float).ravel()
        y0 = np.asarray(f(xf.copy().reshape(x.shape)), dtype=float).ravel()
        J = np.zeros((y0.size, xf.size))
        for j in range(xf.size):
            hh = rel_step * (1 + abs(xf[j]))
            xp, xm = xf.copy(), xf.copy()
            xp[j] += hh
            xm[j] -= hh
            J[:, j] = (np.asarray(f(xp.reshape(x.shape)), dtype=float).ravel() - np.asarray(f(xm.reshape(x.shape)), dtype=float).ravel()) / (2 * hh)
        return J

    def derivative_at(self, f, var, at, order, step=2e-3):
        """d^order f / d var^order evaluated at var = `at` (f: scalar function of one scalar)."""
        if self.sym:
            assert isinstance(var, SymReal) and z3.is_const(var.e)
            e = R(f(var))
            for _ in range(order):
                e = diff(e, var.e)
            return SymReal(funcs.renorm(z3.substitute(e, (var.e, R(at)))))
        a = float(at)
        hh = step
        if order == 0:
            return float(f(a))
        if order == 1:
            return (float(f(a + hh)) - float(f(a - hh))) / (2 * hh)
        if order == 2:
            return (float(f(a + hh)) - 2 * float(f(a)) + float(f(a - hh))) / (hh * hh)
        raise NotImplementedError

    # ------------------------------------------------------------------ definedness as a property
    def assume_off_kinks(self):
        """exclude the measure-zero set where a folded coordinate lands exactly on a wall multiple"""
        self.note_assumption("trajectories landing exactly on a wall multiple (measure zero) are excluded")
        if self.sym:
            for (a, b, q, f) in self.ctx.floor_list:
                self.ctx.side.append(f > 0)

    def mark(self):
        return len(self.ctx.assume) if self.sym else 0

    def defined(self, name, value, since=0):
        """every division / log / sqrt executed since `since` was defined (no NaN / inf)"""
        if self.sym:
            hyps = list(self.ctx.side) + list(self.ctx.assume[:since]) + list(self.ctx.pc)
            conds = self.ctx.assume[since:]
            name = self._uniq(name)
            neg = z3.simplify(z3.Or(*[z3.Not(c) for c in conds])) if conds else z3.BoolVal(False)
            o = Obligation(name, hyps, neg, None, "defined", None)
            if z3.is_false(neg):
                o.status = "unsat"
            self.obligations.append(o)
        else:
            with np.errstate(all="ignore"):
                ok = bool(np.all(np.isfinite(np.asarray(value, dtype=float))))
            self._crecord(name, ok, f"value={np.asarray(value).ravel()[:6]}")


def _flat_args(args):
    flat = []
    for a in args:
        if isinstance(a, np.ndarray):
            flat.extend(a.ravel().tolist())
        elif isinstance(a, (list, tuple)):
            flat.extend(_flat_args(a))
        else:
            flat.append(a)
    return flat


def _bexprs(a, b):
    aa, bb = np.asarray(a, dtype=object), np.asarray(b, dtype=object)
    aa, bb = np.broadcast_arrays(aa, bb)
    return [R(v) for v in aa.ravel()], [R(v) for v in bb.ravel()]


def _same(a, b):
    if isinstance(a, np.ndarray) or isinstance(b, np.ndarray):
        a, b = np.asarray(a), np.asarray(b)
        return a.shape == b.shape and bool(np.all(a == b))
    if isinstance(a, (list, tuple)) and isinstance(b, (list, tuple)):
        return len(a) == len(b) and all(_same(x, y) for x, y in zip(a, b))
    return a == b


# ======================================================================================
# running a unit
# ======================================================================================
ENGINE_ERRORS = (Realification, NotImplementedError)


WHITEBOX = {"used": False}


def _harness_reads_missing_internal(e):
    tb = e.__traceback__
    last = None
    while tb is not None:
        last = tb
        tb = tb.tb_next
    if last is not None and WHITEBOX["used"] and isinstance(e, (TypeError, AttributeError, IndexError, KeyError)):
        # a unit that drives an internal (private) routine directly, outside the calling context its public entry point
        # sets up: a structural exception (wrong type / missing attribute / index / key), wherever it surfaces, means the
        # routine's calling convention or the bookkeeping around it changed -- not that the property fails
        return True
    if not isinstance(e, AttributeError):
        return False
    tb = e.__traceback__
    last = None
    while tb is not None:
        last = tb
        tb = tb.tb_next
    if last is None:
        return False
    fn = last.tb_frame.f_code.co_filename
    here = os.path.dirname(os.path.dirname(os.path.abspath(__file__)))
    if not os.path.abspath(fn).startswith(os.path.join(here, "harness")):
        return False
    obj = getattr(e, "obj", None)
    if isinstance(obj, types.ModuleType):
        mod = getattr(obj, "__name__", None)
    elif isinstance(obj, type):
        mod = getattr(obj, "__module__", "")
    else:
        mod = getattr(type(obj), "__module__", "")
    # an attribute of a package object the harness relied on, or a mistake inside the harness itself
    return bool(mod) and str(mod).split(".")[0] in ("inference", "harness", "symnp")


def _run_concrete(u, values, uf_tables, family_index=0, fd_scale=1.0):
    """returns (checks list, exception or None)"""
    h = H(None, values, uf_tables, family_index, fd_scale)
    exc = None
    try:
        with np.errstate(all="ignore"):
            u.fn(h, **u.params)
    except ReplayMismatch as e:
        exc = e
    except PathAbort as e:
        exc = e
    except Exception as e:  # noqa: BLE001
        exc = e
    finally:
        h.close()
    return h, exc


def _model_inputs(ctx, mv, ufnames):
    vals = {}
    for name, c in ctx.inputs.items():
        try:
            vals[name] = mv.value(c)
        except Exception:  # noqa: BLE001
            vals[name] = 0.0
    vals.update({k: float(v) for k, v in ctx.free_choices.items()})
    tables = {n: mv.uf_table(n) for n in ufnames}
    return vals, tables


def _try_replay(u, ctx, h, target, hyps, neg, robust, timeout_ms, is_exception=None, log=None, kind="assert"):
    """find a model whose concrete replay fails check `target` (or raises `is_exception`).
    returns (reproduced, inputs, detail)"""
    attempts = []
    box = []
    for name, c in ctx.inputs.items():
        if z3.is_real(c):
            box += [c >= -50, c <= 50]
    queries = []
    if robust is not None:
        queries.append(hyps + [robust] + box)
        queries.append(hyps + [robust])
    queries.append(hyps + [neg] + box)
    queries.append(hyps + [neg])
    last_detail = ""
    nfam = max(1, u.opts.get("families", 1))
    for q in queries:
        st, mv = solve(q, timeout_ms=min(timeout_ms, 15000))
        if st != "sat":
            continue
        vals, tables = _model_inputs(ctx, mv, list(h.uf_calls.keys()))
        for fam in range(nfam):
            hc, exc = _run_concrete(u, vals, tables, fam)
            if is_exception is not None:
                if exc is not None and type(exc).__name__ == is_exception:
                    return True, (vals, tables), f"replay raised {type(exc).__name__}: {exc}"
                last_detail = f"replay did not raise {is_exception} (got {type(exc).__name__ if exc else 'no exception'})"
                continue
            if isinstance(exc, ReplayMismatch):
                last_detail = f"replay mismatch: {exc}"
                hit = [c for c in hc.concrete_checks if c[0] == target]
                if hit and not hit[0][1]:
                    return True, (vals, tables), hit[0][2]     # the check was reached and failed before the mismatch
                continue
            if kind == "defined" and isinstance(exc, (ZeroDivisionError, FloatingPointError, OverflowError)):
                return True, (vals, tables), f"replay raised {type(exc).__name__}: {exc}"
            for (n, ok, detail) in hc.concrete_checks:
                if n == target:
                    if not ok:
                        return True, (vals, tables), detail
                    last_detail = f"replay passed: {detail}"
                    break
            else:
                last_detail = f"check {target} not reached on replay" + (f" (exception {type(exc).__name__}: {exc})" if exc else "")
            # family-consistent second attempt: the concrete replay evaluates the uninterpreted functions through a fixed
            # smooth family, so the model's own function values may put the replay on another path.  Pin the arguments of
            # the function applications to the model's values, constrain the applications to the family's values there and
            # solve again for the remaining inputs.
            fams = {n_: ff for n_, ff in getattr(h, "uf_family", {}).items() if ff[1]}
            if fams and not getattr(_try_replay, "_nested", False):
                try:
                    pins = []
                    inputs_by_id = {c.get_id(): (nm, c) for nm, c in ctx.inputs.items()}
                    for n_, (decl, family) in fams.items():
                        fn = family[fam % len(family)]
                        for args in h.uf_calls.get(n_, []):
                            cargs = [mv.value(R(a)) for a in args]
                            for a in args:
                                for vid in free_vars(R(a)):
                                    if vid in inputs_by_id:
                                        nm, c = inputs_by_id[vid]
                                        pins.append(c == z3.RealVal(str(Fraction(vals[nm]))))
                            pins.append(decl(*[R(a) for a in args]) == z3.RealVal(str(Fraction(float(fn(*cargs))))))
                    st2, mv2 = solve(list(q) + pins, timeout_ms=min(timeout_ms, 15000))
                    if st2 == "sat":
                        vals2, tables2 = _model_inputs(ctx, mv2, list(h.uf_calls.keys()))
                        hc2, exc2 = _run_concrete(u, vals2, tables2, fam)
                        for (n, ok, detail) in hc2.concrete_checks:
                            if n == target and not ok:
                                return True, (vals2, tables2), "[family-consistent replay] " + detail
                except Exception:  # noqa: BLE001
                    pass
        attempts.append(last_detail)
    return False, None, last_detail


def run_unit(u, tier="quick", seed=0, query_timeout_ms=None, log=print):
    """explore + discharge + replay.  returns a JSON-able dict"""
    import sys
    import warnings
    warnings.simplefilter("ignore")
    sys.setrecursionlimit(max(sys.getrecursionlimit(), 100000))
    t0 = time.time()
    opts = u.opts
    qto = query_timeout_ms or (opts.get("timeout_ms", 20000) if tier == "quick" else opts.get("thorough_timeout_ms", 120000))
    holders = []

    def path_fn(ctx):
        h = H(ctx)
        holders.append(h)
        try:
            return u.fn(h, **u.params)
        finally:
            h.close()

    results, leftover = explore(path_fn, max_paths=opts.get("max_paths", 3000),
                                branch_timeout_ms=opts.get("branch_timeout_ms", 3000),
                                max_int_fork=opts.get("max_int_fork", 16),
                                wall_s=opts.get("explore_wall_s", 600),
                                ctx_opts={k: opts[k] for k in ("floor_lemmas", "axioms_in_branch", "floor_fork", "axioms_in_trunc", "concretise") if k in opts})
    out = {
        "unit": u.name, "property": u.prop, "tier": tier, "params": {k: repr(v) for k, v in u.params.items()},
        "paths": 0, "aborted": {}, "obligations": 0, "unsat": 0, "sat": 0, "unknown": 0, "trivial": 0,
        "violations": [], "inconclusive": [], "samples": [], "covered": {}, "stubs": [], "assumptions": [],
        "unexplored": len(leftover), "reachable_paths": 0, "reachable_paths_noaxioms": 0, "distinct": 0,
    }
    if leftover:
        out["inconclusive"].append(f"exploration incomplete: {len(leftover)} decision prefixes left unexplored")
    distinct = set()
    for pr, h in zip(results, holders):
        ctx = pr.ctx
        for k, v in h.covered.items():
            out["covered"][k] = v
        for s in h.stubs:
            if s not in out["stubs"]:
                out["stubs"].append(s)
        for s in h.assumptions_txt:
            if s not in out["assumptions"]:
                out["assumptions"].append(s)
        if pr.abort is not None:
            k = pr.abort.kind
            out["aborted"][k] = out["aborted"].get(k, 0) + 1
            if k == "unsupported":
                out["inconclusive"].append(f"path abandoned: {pr.abort}")
            if k == "infeasible" and not h.obligations:
                continue
            # obligations recorded before the abort are still discharged below (each under the
            # hypotheses in force when it was stated)
        out["paths"] += 1
        # reachability twin: the path's hypotheses must be satisfiable
        st, _ = solve(ctx.hyps(), timeout_ms=min(qto, 1500), want_model=False)
        path_unsat = False
        if st == "unsat":
            # the path ends in an undefined / contradictory region; obligations recorded before
            # that point are still meaningful if their own hypotheses are satisfiable
            path_unsat = True
            keep = []
            for o in h.obligations:
                if o.status == "unsat" or solve(o.hyps, timeout_ms=min(qto, 3000), want_model=False)[0] != "unsat":
                    keep.append(o)
            h.obligations = keep
            if not keep:
                out["aborted"]["vacuous"] = out["aborted"].get("vacuous", 0) + 1
                continue
            out["reachable_paths_noaxioms"] += 1
        if st == "sat":
            out["reachable_paths"] += 1
        elif not path_unsat:
            # satisfiable at least at the level of the abstraction (no transcendental axioms)?
            st2, _ = solve(ctx.hyps(), timeout_ms=qto, want_model=False, use_axioms=False)
            if st2 == "unsat":
                out["aborted"]["vacuous"] = out["aborted"].get("vacuous", 0) + 1
                continue
            if st2 == "sat":
                out["reachable_paths_noaxioms"] += 1
        if pr.error is not None:
            e = pr.error
            tb = "".join(traceback.format_exception(type(e), e, e.__traceback__)[-4:])
            if h.allowed_exc and isinstance(e, h.allowed_exc) and not isinstance(e, (Realification, ReplayMismatch)):
                out["aborted"]["allowed_exception"] = out["aborted"].get("allowed_exception", 0) + 1
            elif isinstance(e, ENGINE_ERRORS) or isinstance(e, ReplayMismatch):
                out["inconclusive"].append(f"engine limitation on a path: {type(e).__name__}: {e}\n{tb}")
            elif _harness_reads_missing_internal(e):
                # the harness itself (not the code under test) asked a repo object for an attribute it no longer has:
                # the internals were re-organised and the harness is out of date -- never a verdict about the property
                out["inconclusive"].append(f"harness out of date: it reads an internal attribute the code no longer has: {e}\n{tb}")
            elif h.allowed_exc and isinstance(e, h.allowed_exc):
                out["aborted"]["allowed_exception"] = out["aborted"].get("allowed_exception", 0) + 1
            else:
                out["obligations"] += 1
                name = f"no_exception:{type(e).__name__}"
                ok, vals, detail = _try_replay(u, ctx, h, None, ctx.hyps(), z3.BoolVal(True), None, qto,
                                               is_exception=type(e).__name__)
                if ok:
                    out["sat"] += 1
                    out["violations"].append({"check": name, "inputs": vals[0], "uf_tables": vals[1], "detail": f"{e}; {detail}", "decisions": _dec(ctx)})
                else:
                    out["inconclusive"].append(f"exception on a symbolic path not reproduced concretely: {type(e).__name__}: {e}; {detail}\n{tb}")
        for o in h.obligations:
            out["obligations"] += 1
            if o.status == "unsat":
                out["trivial"] += 1
                out["unsat"] += 1
                continue
            key = (o.name, o.neg.get_id(), tuple(sorted(x.get_id() for x in o.hyps)))
            distinct.add(hash(key))
            if z3.is_true(o.neg) and o.kind in ("concrete", "reach"):
                st, mv = solve(o.hyps, timeout_ms=qto)
            else:
                t1 = time.time()
                st, mv, stage = prove(o.hyps, o.neg, timeout_ms=qto, pairs=o.pairs)
                o.time = time.time() - t1
            o.status = st
            out[st] += 1
            if len(out["samples"]) < 3 and st == "unsat" and (len(out["samples"]) == 0 or (hash(key) + seed) % 7 == 0):
                try:
                    out["samples"].append({"obligation": o.name, "path_decisions": _dec(ctx), "status": st,
                                           "solver_s": round(o.time, 3), "smt2_abstracted": to_smt2(o.hyps + [o.neg], 2500)})
                except Exception:  # noqa: BLE001
                    pass
            if st == "unknown":
                out["inconclusive"].append(f"solver unknown/timeout on {o.name} after {o.time:.1f}s")
            elif st == "sat" and len(out["violations"]) >= 3:
                # the unit already has reproduced counterexamples: further sat answers are counted, not replayed
                out["sat_not_replayed"] = out.get("sat_not_replayed", 0) + 1
            elif st == "sat":
                ok, vals, detail = _try_replay(u, ctx, h, o.name, o.hyps, o.neg, o.robust, qto, kind=o.kind)
                if ok:
                    out["violations"].append({"check": o.name, "inputs": vals[0], "uf_tables": vals[1],
                                              "detail": (o.meta + "; " if o.meta else "") + detail, "decisions": _dec(ctx)})
                else:
                    out["inconclusive"].append(f"sat on {o.name} not reproduced on replay ({detail})" + (f" [{o.meta}]" if o.meta else ""))
    out["distinct"] = len(distinct)
    if out["reachable_paths"] + out["reachable_paths_noaxioms"] == 0 or out["obligations"] == 0:
        out["inconclusive"].append("vacuous unit: no reachable path with an obligation")
    completed = sum(1 for pr in results if pr.abort is None and pr.error is None)
    allowed = out["aborted"].get("allowed_exception", 0)
    if results and completed + allowed == 0:
        out["inconclusive"].append("no path ran the unit to its end (every path was cut short by a bound or an abort): nothing is claimed")
    if Ctx.truncated_forks and opts.get("_hunt"):
        out["inconclusive"].append(f"{Ctx.truncated_forks} int() fork(s) over an unbounded value explored only partially")
    if not opts.get("_hunt") and not out["violations"] and any(("Realification" in t) or ("no path ran the unit to its end" in t) for t in out["inconclusive"]):
        # hunt mode: the exhaustive run stopped at a float() of a symbolic value, or no path reached the end of the unit
        # (e.g. an int() of an unbounded value).  Re-run with concolic concretisation of exactly those values (float():
        # one feasible double; int() of an unbounded value: two small alternatives): nothing is proved that way (the unit stays inconclusive), but a counterexample found and
        # replayed on such a path is an ordinary violation.
        u2 = Unit(u.prop, u.fn, u.params, u.tier, dict(opts, _hunt=True, concretise=True, max_paths=min(opts.get("max_paths", 3000), 400)))
        try:
            r2 = run_unit(u2, tier, seed, query_timeout_ms, log)
            out["hunt"] = {"paths": r2["paths"], "obligations": r2["obligations"], "sat": r2["sat"], "violations": len(r2["violations"])}
            for v in r2["violations"]:
                v["detail"] = "[found with concretised float() values] " + str(v.get("detail", ""))
                out["violations"].append(v)
            out["sat"] += len(r2["violations"])
        except Exception as e:  # noqa: BLE001
            out["hunt"] = {"error": f"{type(e).__name__}: {e}"}
    out["wall_s"] = round(time.time() - t0, 2)
    out["solver"] = {k: (round(v, 2) if isinstance(v, float) else v) for k, v in STATS.items()}
    return out


def _dec(ctx):
    return "".join(("T" if d[1] else "F") if d[0] == "b" else f"<{d[1]}>" for d in ctx.decisions)[:200]


def replay_unit(u, inputs, uf_tables=None):
    h, exc = _run_concrete(u, inputs, uf_tables or {})
    return h.concrete_checks, exc
