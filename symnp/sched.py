"""in-process stand-ins for multiprocessing.Pipe / Process / Event with a baton-passing scheduler.

Each Process is a thread that only runs while it holds the baton; it gives the baton back at every
synchronisation call (poll / recv / send / is_set).  Which runnable task proceeds next is decided by
a `chooser(n_runnable, labels) -> index` callback (symbolic fork in the harness), so one execution
path = one interleaving class.  Contracts: pipes are FIFO and reliable; Event.set is visible to
every later is_set; Process.join returns once the target returned."""
import threading
from collections import deque


class _Abort(BaseException):
    pass


class Scheduler:
    def __init__(self, chooser, max_choice_points=8):
        self.chooser = chooser
        self.max_choice_points = max_choice_points
        self.choice_points = 0
        self.tasks = []
        self.main_wait = None  # predicate the main task waits for (None: runnable)
        self.aborting = False
        self.error = None
        self.switches = 0
        self.trace = []

    # -- called from the main task when it has to wait for `ready()`
    def main_block(self, ready, what):
        while not ready():
            runnable = [t for t in self.tasks if t.runnable()]
            if not runnable:
                raise RuntimeError(f"deadlock: main waits for {what} and no worker can run")
            self._run_one(runnable)
            if self.error is not None:
                err, self.error = self.error, None
                raise err

    def _run_one(self, runnable):
        if len(runnable) > 1 and self.choice_points < self.max_choice_points:
            self.choice_points += 1
            k = self.chooser(len(runnable), [t.label for t in runnable])
        else:
            k = 0
        t = runnable[k]
        self.trace.append(t.label)
        self.switches += 1
        t.resume()

    def drain(self):
        """let every worker run until it blocks (used before inspecting final state)"""
        while True:
            runnable = [t for t in self.tasks if t.runnable()]
            if not runnable:
                return
            self._run_one(runnable)
            if self.error is not None:
                err, self.error = self.error, None
                raise err

    def abort_all(self):
        self.aborting = True
        for t in self.tasks:
            if t.started and not t.finished:
                t.resume()
        for t in self.tasks:
            if t.started:
                t.thread.join(timeout=5)


class Task:
    def __init__(self, sched, target, args, label):
        self.sched, self.target, self.args, self.label = sched, target, args, label
        self.go = threading.Semaphore(0)
        self.back = threading.Semaphore(0)
        self.started = self.finished = False
        self.wait_pred = None  # None => runnable; else predicate that must become true
        self.thread = threading.Thread(target=self._body, daemon=True)
        sched.tasks.append(self)

    def runnable(self):
        if not self.started or self.finished:
            return False
        return self.wait_pred is None or self.wait_pred()

    def _body(self):
        self.go.acquire()
        try:
            if not self.sched.aborting:
                self.target(*self.args)
        except _Abort:
            pass
        except BaseException as e:  # noqa: BLE001 - forwarded to the main task
            self.sched.error = e
        finally:
            self.finished = True
            self.back.release()

    def resume(self):
        self.wait_pred = None
        self.go.release()
        self.back.acquire()

    # called from inside the task's thread
    def yield_(self, wait_pred=None):
        self.wait_pred = wait_pred
        self.back.release()
        self.go.acquire()
        if self.sched.aborting:
            raise _Abort()

    # multiprocessing.Process API
    def start(self):
        self.started = True
        self.thread.start()

    def join(self, timeout=None):
        self.sched.main_block(lambda: self.finished, f"join({self.label})")

    def is_alive(self):
        return self.started and not self.finished


_current = threading.local()


class Conn:
    def __init__(self, sched, inbox, outbox, owner_is_main):
        self.sched, self.inbox, self.outbox, self.owner_is_main = sched, inbox, outbox, owner_is_main
        self.task = None  # set for worker ends when the worker first uses it

    def _me(self):
        if self.owner_is_main:
            return None
        if self.task is None:
            self.task = getattr(_current, "task", None)
        return self.task

    def send(self, obj):
        self.outbox.append(obj)
        me = self._me()
        if me is not None:
            me.yield_()  # a sync point: others may run

    def poll(self, timeout=None):
        me = self._me()
        if me is None:
            # the main task polls: if nothing has arrived yet, time passes -- one runnable worker gets to run
            if not self.inbox:
                runnable = [t for t in self.sched.tasks if t.runnable()]
                if runnable:
                    self.sched._run_one(runnable)
                    if self.sched.error is not None:
                        err, self.sched.error = self.sched.error, None
                        raise err
                else:
                    self.sched.idle_polls = getattr(self.sched, "idle_polls", 0) + 1
                    if self.sched.idle_polls > 1000:
                        raise RuntimeError("deadlock: main keeps polling an empty pipe and no worker can run")
            return len(self.inbox) > 0
        if not self.inbox:
            # blocked until a message arrives or the shutdown event is set (the worker re-checks it)
            me.yield_(lambda: len(self.inbox) > 0 or any(e.flag for e in Event.instances))
        return len(self.inbox) > 0

    def recv(self):
        me = self._me()
        if me is None:
            self.sched.main_block(lambda: len(self.inbox) > 0, "recv")
        elif not self.inbox:
            me.yield_(lambda: len(self.inbox) > 0)
        return self.inbox.popleft()


class Event:
    instances = []

    def __init__(self):
        self.flag = False
        Event.instances.append(self)

    def set(self):
        self.flag = True

    def is_set(self):
        return self.flag

    def clear(self):
        self.flag = False


def install(sched):
    """returns (Pipe, Process, Event) factories bound to the scheduler"""
    Event.instances = []
    counter = [0]

    def Pipe():
        a, b = deque(), deque()
        parent = Conn(sched, inbox=a, outbox=b, owner_is_main=True)
        child = Conn(sched, inbox=b, outbox=a, owner_is_main=False)
        return parent, child

    def Process(target=None, args=()):
        counter[0] += 1
        label = f"worker{counter[0] - 1}"
        holder = {}

        def body(*a):
            _current.task = holder["t"]
            target(*a)
        t = Task(sched, body, args, label)
        holder["t"] = t
        return t

    return Pipe, Process, Event
