"""contract stubs for code that cannot be executed symbolically (compiled LAPACK, random
generators, clocks, npz files, process primitives).  Each stub is a *contract*, listed in the
evidence of the check that installs it."""
import itertools

import numpy as np
import z3

from .core import SymReal, SymBool, Ctx, PathAbort, lift, R, ozeros


# ----------------------------------------------------------------------------- linear algebra
class LinAlgError(np.linalg.LinAlgError):
    pass


def cholesky(K):
    """contract: returns lower-triangular L with L @ L.T == K, positive diagonal; raises
    LinAlgError when a pivot is not positive (forks on the sign of each pivot)."""
    K = np.asarray(K)
    n = K.shape[0]
    L = ozeros((n, n))
    for i in range(n):
        for j in range(i + 1):
            s = K[i, j]
            for k in range(j):
                s = s - L[i, k] * L[j, k]
            s = lift(s)
            if i == j:
                if not (s > 0):
                    raise np.linalg.LinAlgError("Matrix is not positive definite")
                L[i, j] = s.sqrt()
            else:
                L[i, j] = s / L[j, j]
    return L


class FactorRegistry:
    """K = L L^T parametrisation: the harness registers the symbolic factor it built K from;
    the cholesky stub returns it after certifying K == L L^T entrywise (obligation)."""

    def __init__(self):
        self.factors = []

    def register(self, L):
        self.factors.append(L)


def make_param_cholesky(h, L_sym, name="chol"):
    """cholesky contract for a matrix the harness built as L_sym @ L_sym.T.  Symbolic mode:
    certifies (obligation) that the argument equals L_sym L_sym^T and returns L_sym.  Replay
    mode: the same assertion numerically, then the real LAPACK factorisation."""
    calls = [0]

    def chol(K):
        K = np.asarray(K)
        calls[0] += 1
        # (an algebraic identity between two float evaluations of the same matrix: replays compare to ~1e-11, not 1e-6)
        h.eq(f"{name}.argument_is_LLt[{calls[0]}]", K, L_sym @ L_sym.T, tol=1e-11)
        if h.sym:
            return L_sym.copy()
        return np.linalg.cholesky(K)

    return chol


def solve_triangular(a, b, lower=False, trans=0, **kw):
    """contract: exact forward / back substitution"""
    a = np.asarray(a)
    b = np.asarray(b)
    if trans in (1, "T"):
        a = a.T
        lower = not lower
    n = a.shape[0]
    bb = b.reshape(n, -1).astype(object)
    x = ozeros(bb.shape)
    rng = range(n) if lower else range(n - 1, -1, -1)
    for i in rng:
        ks = range(i) if lower else range(i + 1, n)
        for c in range(bb.shape[1]):
            s = bb[i, c]
            for k in ks:
                s = s - a[i, k] * x[k, c]
            x[i, c] = lift(s) / a[i, i]
    return x.reshape(b.shape)


def gauss_solve(A, B, **kw):
    """contract of scipy.linalg.solve by fraction-free Gaussian elimination without pivoting
    (pivots assumed non-zero: recorded as definedness assumptions by the proxies' division)"""
    A = np.array(A, dtype=object)
    B = np.asarray(B)
    n = A.shape[0]
    bb = np.array(B.reshape(n, -1), dtype=object)
    A = A.copy()
    for i in range(n):
        for r in range(i + 1, n):
            f = lift(A[r, i]) / A[i, i]
            A[r, i:] = A[r, i:] - f * A[i, i:]
            bb[r, :] = bb[r, :] - f * bb[i, :]
    x = ozeros(bb.shape)
    for i in range(n - 1, -1, -1):
        for c in range(bb.shape[1]):
            s = bb[i, c]
            for k in range(i + 1, n):
                s = s - A[i, k] * x[k, c]
            x[i, c] = lift(s) / A[i, i]
    return x.reshape(B.shape)


def det(M):
    M = np.asarray(M)
    m = M.shape[0]
    if m == 1:
        return M[0, 0]
    tot = 0
    for j in range(m):
        minor = np.delete(np.delete(M, 0, 0), j, 1)
        tot = tot + ((-1) ** j) * M[0, j] * det(minor)
    return tot


def adj_inverse(K):
    K = np.asarray(K)
    n = K.shape[0]
    if n == 1:
        W = np.empty((1, 1), dtype=object)
        W[0, 0] = 1 / lift(K[0, 0])
        return W
    D = det(K)
    W = np.empty((n, n), dtype=object)
    for i in range(n):
        for j in range(n):
            W[j, i] = ((-1) ** (i + j)) * det(np.delete(np.delete(K, i, 0), j, 1)) / D
    return W


def np_divmod(a, b):
    """numpy.divmod has no object loop: element-wise python divmod (same contract)"""
    q, r = np.frompyfunc(divmod, 2, 2)(a, b)
    return q, r


# ----------------------------------------------------------------------------- random numbers
class SymRng:
    """every draw is a fresh symbolic variable constrained only by the generator's documented
    contract.  In replay mode the values come from the recorded model instead."""

    def __init__(self, h, tag="rng", max_draws=None):
        self.h = h
        self.tag = tag
        self.n = 0
        self.max_draws = max_draws
        self.log = []  # (kind, value)

    def _next(self, kind, lo=None, hi=None, lo_strict=False, hi_strict=False):
        self.n += 1
        if self.max_draws is not None and self.n > self.max_draws:
            raise PathAbort("bound", f"{self.tag}: more than {self.max_draws} random draws")
        v = self.h.real(f"{self.tag}.{kind}{self.n}", lo=lo, hi=hi, lo_strict=lo_strict, hi_strict=hi_strict)
        self.log.append((kind, v))
        return v

    def _shape(self, size):
        if size is None:
            return None
        return (size,) if isinstance(size, (int, np.integer)) else tuple(size)

    def _fill(self, size, f):
        shp = self._shape(size)
        if shp is None:
            return f()
        out = np.empty(shp, dtype=object if self.h.sym else float)
        for idx in np.ndindex(shp):
            out[idx] = f()
        return out

    def normal(self, loc=0.0, scale=1.0, size=None):
        if size is None and (isinstance(loc, np.ndarray) or isinstance(scale, np.ndarray)):
            size = np.broadcast(np.asarray(loc), np.asarray(scale)).shape
        z = self._fill(size, lambda: self._next("z"))
        return loc + scale * z

    def standard_normal(self, size=None):
        return self._fill(size, lambda: self._next("z"))

    def random(self, size=None):
        return self._fill(size, lambda: self._next("u", lo=0, hi=1, hi_strict=True))

    def uniform(self, low=0.0, high=1.0, size=None):
        if size is None and (isinstance(low, np.ndarray) or isinstance(high, np.ndarray)):
            size = np.broadcast(np.asarray(low), np.asarray(high)).shape
        u = self._fill(size, lambda: self._next("u", lo=0, hi=1, hi_strict=True))
        return low + (high - low) * u

    def exponential(self, scale=1.0, size=None):
        if size is None and isinstance(scale, np.ndarray):
            size = scale.shape
        e = self._fill(size, lambda: self._next("e", lo=0))
        return scale * e

    def integers(self, low, high=None, size=None):
        if high is None:
            low, high = 0, low
        assert size is None
        return self.h.choice_int(f"{self.tag}.i", low, high - 1)

    def permutation(self, n):
        idx = list(range(n)) if isinstance(n, (int, np.integer)) else list(n)
        out = []
        pool = list(idx)
        while pool:
            k = self.h.choice_int(f"{self.tag}.perm", 0, len(pool) - 1)
            out.append(pool.pop(k))
        return np.array(out)

    def shuffle(self, x):
        p = self.permutation(len(x))
        vals = [x[i] for i in p]
        for i, v in enumerate(vals):
            x[i] = v

    def choice(self, a, size=None, p=None, replace=True):
        n = a if isinstance(a, (int, np.integer)) else len(a)
        if size is None:
            k = self.h.choice_int(f"{self.tag}.choice", 0, n - 1)
            return k if isinstance(a, (int, np.integer)) else a[k]
        shp = self._shape(size)
        out = np.empty(shp, dtype=int)
        for idx in np.ndindex(shp):
            out[idx] = self.h.choice_int(f"{self.tag}.choice", 0, n - 1)
        return out if isinstance(a, (int, np.integer)) else np.asarray(a)[out]


# ----------------------------------------------------------------------------- npz store
class NpzStore:
    """in-memory numpy.savez / numpy.load with the npz contract: every value is stored as
    numpy.asarray(value) (scalars become 0-d arrays, lists become arrays) and read back equal."""

    def __init__(self):
        self.files = {}

    def savez(self, filename, **items):
        d = {}
        for k, v in items.items():
            a = np.asarray(v) if not _has_sym(v) else np.array(v, dtype=object)
            d[k] = a.copy()
        self.files[str(filename)] = d

    savez_compressed = savez

    def load(self, filename, **kw):
        return NpzFile(self.files[str(filename)])


class NpzFile(dict):
    def __init__(self, d):
        super().__init__({k: v.copy() for k, v in d.items()})

    @property
    def files(self):
        return list(self.keys())


def _has_sym(v):
    if isinstance(v, (SymReal, SymBool)):
        return True
    if isinstance(v, np.ndarray):
        return v.dtype == object
    if isinstance(v, (list, tuple)):
        return any(_has_sym(x) for x in v)
    return False


# ----------------------------------------------------------------------------- coercion shims
def sym_float(x=0.0):
    if isinstance(x, SymReal):
        return x
    if isinstance(x, np.ndarray) and x.dtype == object:
        return x.item()
    return float(x)


_py_int = int


def sym_int(x=0, *a):
    if isinstance(x, SymReal):
        return x.__int__()
    if isinstance(x, np.ndarray) and x.dtype == object:
        return sym_int(x.item())
    return _py_int(x, *a)


def sym_bool(x=False):
    if isinstance(x, np.ndarray) and x.dtype == object:
        x = x.item()
    return bool(x)


def oarray(obj, dtype=None, **kw):
    """numpy.array that never forces IEEE storage on symbolic content"""
    if _has_sym(obj):
        return np.array(obj, dtype=object, **{k: v for k, v in kw.items() if k in ("copy", "ndmin")})
    return np.array(obj, dtype=dtype, **kw)


# ----------------------------------------------------------------------------- more linear algebra (contracts)
def lu_factor(M, **kw):
    """contract of scipy.linalg.lu_factor: P A = L U with partial pivoting (the pivot choice forks on a
    comparison of squares), L unit lower and U upper stored in one array, piv[k] = row swapped with k"""
    A = np.array(M, dtype=object).copy()
    n = A.shape[0]
    piv = np.arange(n)
    for k in range(n):
        p = k
        for r in range(k + 1, n):
            if lift(A[r, k]) * A[r, k] > lift(A[p, k]) * A[p, k]:
                p = r
        if p != k:
            A[[k, p], :] = A[[p, k], :]
        piv[k] = p
        for r in range(k + 1, n):
            A[r, k] = lift(A[r, k]) / A[k, k]
            A[r, k + 1:] = A[r, k + 1:] - A[r, k] * A[k, k + 1:]
    return A, piv


def lu_solve(lu_and_piv, b, trans=0, **kw):
    lu, piv = lu_and_piv
    if trans not in (0, "N"):
        raise NotImplementedError("lu_solve stub: trans != 0")
    n = lu.shape[0]
    b = np.asarray(b)
    bb = np.array(b.reshape(n, -1), dtype=object).copy()
    for k in range(n):
        p = int(piv[k])
        if p != k:
            bb[[k, p], :] = bb[[p, k], :]
    for i in range(n):
        for k in range(i):
            bb[i, :] = bb[i, :] - lu[i, k] * bb[k, :]
    for i in range(n - 1, -1, -1):
        for k in range(i + 1, n):
            bb[i, :] = bb[i, :] - lu[i, k] * bb[k, :]
        for c in range(bb.shape[1]):
            bb[i, c] = lift(bb[i, c]) / lu[i, i]
    return bb.reshape(b.shape)


def scipy_cholesky(a, lower=False, **kw):
    L = cholesky(a)
    return L if lower else L.T.copy()


def cho_factor(a, lower=False, **kw):
    return scipy_cholesky(a, lower=lower), lower


def cho_solve(c_and_lower, b, **kw):
    c, lower = c_and_lower
    L = c if lower else c.T
    return solve_triangular(L.T, solve_triangular(L, b, lower=True), lower=False)


def slogdet(M):
    d = lift(det(M))
    if d > 0:
        return 1.0, d.log()
    if d < 0:
        return -1.0, (-d).log()
    return 0.0, -np.inf


def np_solve(A, B):
    return gauss_solve(A, B)


class SymTimedelta:
    """contract of datetime.timedelta for a symbolic duration: the duration is held in whole microseconds
    (rounded to nearest), .days / .seconds / .microseconds are its normalised components"""

    def __init__(self, days=0, seconds=0, microseconds=0, milliseconds=0, minutes=0, hours=0, weeks=0):
        tot = ((((weeks * 7 + days) * 24 + hours) * 60 + minutes) * 60 + seconds) * 1000000 + milliseconds * 1000 + microseconds
        tot = lift(tot)
        self._us = (tot + lift(1) / 2) // 1   # round to nearest microsecond (ties: upwards; half-even in CPython)
        self.days = self._us // 86400000000
        rem = self._us - self.days * 86400000000
        self.seconds = rem // 1000000
        self.microseconds = rem - self.seconds * 1000000

    def total_seconds(self):
        return self._us / 1000000


def isclose(a, b, rtol=1e-05, atol=1e-08, equal_nan=False):
    """contract of numpy.isclose for finite values: |a - b| <= atol + rtol * |b|, element-wise (forking booleans)"""
    a, b = np.broadcast_arrays(np.asarray(a, dtype=object), np.asarray(b, dtype=object))
    out = np.empty(a.shape, dtype=object)
    for idx in np.ndindex(a.shape):
        out[idx] = abs(lift(a[idx]) - b[idx]) <= atol + rtol * abs(lift(b[idx]))
    return out if out.shape else out[()]


def allclose(a, b, rtol=1e-05, atol=1e-08, equal_nan=False):
    r = isclose(a, b, rtol=rtol, atol=atol)
    return bool(np.all([bool(v) for v in np.asarray(r, dtype=object).ravel()]))


def _dispatch(stub, orig):
    def f(*a, **k):
        if any(_has_sym(x) for x in a) or any(_has_sym(x) for x in k.values()):
            return stub(*a, **k)
        return orig(*a, **k)
    f.__name__ = getattr(orig, "__name__", "stub")
    f.__symnp_stub__ = True
    return f


def _auto_table():
    import datetime
    import scipy.linalg as sl
    import scipy.special as sp
    from . import funcs
    T = [
        (np.linalg.cholesky, cholesky), (sl.cholesky, scipy_cholesky), (sl.solve_triangular, solve_triangular),
        (sl.solve, gauss_solve), (np.linalg.solve, np_solve), (np.linalg.inv, adj_inverse), (sl.inv, adj_inverse),
        (np.linalg.det, det), (sl.det, det), (np.linalg.slogdet, slogdet), (sl.lu_factor, lu_factor), (sl.lu_solve, lu_solve),
        (sl.cho_factor, cho_factor), (sl.cho_solve, cho_solve), (np.isfinite, funcs.isfinite), (np.minimum, funcs.minimum),
        (np.maximum, funcs.maximum), (sp.erf, funcs.erf), (sp.erfcx, funcs.erfcx), (np.logaddexp, funcs.logaddexp),
        (np.divmod, np_divmod), (datetime.timedelta, SymTimedelta), (np.isclose, isclose), (np.allclose, allclose),
    ]
    return {id(o): (o, s) for o, s in T}


_AUTO = None


def _is_intlike(dtype):
    try:
        return dtype is bool or (dtype is not None and dtype is not object and np.issubdtype(np.dtype(dtype), np.integer))
    except TypeError:
        return False


def ofull(shape, fill_value, dtype=None, **kw):
    if _is_intlike(dtype):
        return np.full(shape, fill_value, dtype=dtype)
    a = np.empty(shape, dtype=object)
    a.fill(lift(fill_value) if not isinstance(fill_value, (SymReal, SymBool)) else fill_value)
    return a


def oones_(shape, dtype=None, **kw):
    return np.ones(shape, dtype=dtype) if _is_intlike(dtype) else ofull(shape, 1)


def _like(fill):
    def f(a, dtype=None, **kw):
        a = np.asarray(a)
        dt = dtype if dtype is not None else a.dtype
        if _is_intlike(dt):
            return np.full(a.shape, fill, dtype=dt)
        return ofull(a.shape, fill)
    return f


def _array_constructors():
    """working arrays the code allocates and then fills in place must be able to hold symbolic values: object storage
    unless an integer / boolean dtype is requested (index arrays stay concrete)"""
    return [(np.zeros, ozeros), (np.ones, oones_), (np.empty, ozeros), (np.full, ofull),
            (np.zeros_like, _like(0)), (np.ones_like, _like(1)), (np.empty_like, _like(0)), (np.full_like, lambda a, v, dtype=None, **kw: _like(v)(a, dtype))]


def autopatch(h, module):
    """replace, in `module`'s namespace, every compiled routine we have a contract for by a dispatcher that runs the
    contract when an argument is symbolic and the original otherwise (so a re-factoring that reaches for a different
    LAPACK/special routine is still executed symbolically instead of ending in 'inconclusive')"""
    global _AUTO
    if _AUTO is None:
        _AUTO = _auto_table()
    names = {}
    # module-level functions of numpy.random (the process-global generator): part of the environment -- every call returns
    # fresh arbitrary numbers of the documented law, shared by nobody (so two equal chains that consult it diverge)
    import numpy.random as _npr
    glob = {}
    for fname, meth in (("normal", "normal"), ("random", "random"), ("random_sample", "random"), ("uniform", "uniform"),
                        ("standard_normal", "standard_normal"), ("exponential", "exponential"), ("permutation", "permutation"),
                        ("shuffle", "shuffle"), ("choice", "choice"), ("randint", "integers")):
        f = getattr(_npr, fname, None)
        if f is not None:
            glob[id(f)] = (f, meth)
    for k, v in list(vars(module).items()):
        hit = glob.get(id(v))
        if hit is not None and hit[0] is v:
            rng = getattr(h, "_global_rng", None)
            if rng is None:
                rng = h._global_rng = SymRng(h, "numpy.random(global)")
            names[k] = getattr(rng, hit[1])
    ctors = {id(o): (o, st) for o, st in _array_constructors()}
    for k, v in list(vars(module).items()):
        hit = _AUTO.get(id(v))
        if hit is not None and hit[0] is v:
            names[k] = _dispatch(hit[1], v)
        hit = ctors.get(id(v))
        if hit is not None and hit[0] is v:
            names[k] = hit[1]
    return names


class _FloatMeta(type):
    def __instancecheck__(cls, x):
        return isinstance(x, (float, SymReal))


class FloatLike(metaclass=_FloatMeta):
    """stands in for the builtin `float` (or numpy.float64) inside a module under test: as a cast it keeps symbolic values
    symbolic, as a dtype numpy maps it to object storage, isinstance accepts floats and proxies"""

    def __new__(cls, x=0.0):
        return sym_float(x)
