"""symnp core: z3-backed numeric proxies that ride on numpy object arrays, and the
path-exploring executor (decision-prefix replay, depth first).

Nothing in here knows about inference-tools.  The real code under test is *called* with
``numpy.ndarray(dtype=object)`` inputs whose elements are ``SymReal``; numpy's object loops
dispatch arithmetic to the operators below and ``exp/log/sqrt/...`` to the same-named methods.
A Python ``if``/``while``/sort/argmax ends in ``SymBool.__bool__`` which asks the executor.
"""
import itertools
import math
import time
from fractions import Fraction

import numpy as np
import z3

RS = z3.RealSort()
FRAC_DEFS = {}  # id of a floor-fraction constant -> the quotient term it is the fractional part of


class PathAbort(BaseException):
    """Raised to abandon the current path.  kind: 'infeasible' | 'bound' | 'unsupported'."""

    def __init__(self, kind, msg=""):
        super().__init__(f"{kind}: {msg}")
        self.kind = kind
        self.msg = msg


class Realification(Exception):
    """The code tried to turn a symbolic value into a machine float."""


# --------------------------------------------------------------------------------------
# named irrational constants
# --------------------------------------------------------------------------------------
PI = z3.Real("PI")
SQRT2 = z3.Real("SQRT2")
SQRTPI = z3.Real("SQRTPI")
SQRT3 = z3.Real("SQRT3")
LOG2PI = z3.Real("LOG2PI")
LOG2 = z3.Real("LOG2")
LOGPI = z3.Real("LOGPI")
E1 = z3.Real("EULER_E")

CONST_VALUES = {
    "PI": math.pi,
    "SQRT2": math.sqrt(2.0),
    "SQRTPI": math.sqrt(math.pi),
    "SQRT3": math.sqrt(3.0),
    "LOG2PI": math.log(2 * math.pi),
    "LOG2": math.log(2.0),
    "LOGPI": math.log(math.pi),
    "EULER_E": math.e,
}


def _rv(s):
    return z3.RealVal(s)


# always-true facts about the named constants (rational enclosures + algebraic relations)
CONST_AXIOMS = [
    PI > _rv("3.14159265358979"), PI < _rv("3.14159265358980"),
    SQRT2 > 0, SQRT2 * SQRT2 == 2,
    SQRTPI > 0, SQRTPI * SQRTPI == PI,
    SQRT3 > 0, SQRT3 * SQRT3 == 3,
    LOG2PI > _rv("1.8378770664093"), LOG2PI < _rv("1.8378770664094"),
    LOG2 > _rv("0.69314718055994"), LOG2 < _rv("0.69314718055995"),
    LOGPI > _rv("1.1447298858494"), LOGPI < _rv("1.1447298858495"),
    LOG2PI == LOG2 + LOGPI,
    E1 > _rv("2.718281828459"), E1 < _rv("2.718281828460"),
]

# multiplicative monomials of the algebraic constants that are recognised by value
_MONO = []
for a, b, c, d in itertools.product(range(-2, 3), range(-2, 3), range(-2, 3), range(-1, 2)):
    if a == b == c == d == 0:
        continue
    if abs(a) + abs(b) + abs(c) + abs(d) > 3:
        continue
    val = (math.pi ** a) * (math.sqrt(2) ** b) * (math.sqrt(math.pi) ** c) * (math.sqrt(3) ** d)
    _MONO.append((val, (a, b, c, d)))
_ADDITIVE = [("LOG2PI", LOG2PI), ("LOG2", LOG2), ("LOGPI", LOGPI), ("EULER_E", E1)]


def _mono_expr(exps):
    num, den = z3.RealVal(1), z3.RealVal(1)
    for base, k in zip((PI, SQRT2, SQRTPI, SQRT3), exps):
        for _ in range(abs(k)):
            if k > 0:
                num = num * base
            else:
                den = den * base
    return num / den


def _small_ratio(x, maxq=64, maxp=4096):
    """x == p/q with small p,q (to ~4 ulp)?  returns Fraction or None"""
    if x == 0 or not math.isfinite(x):
        return None
    for q in range(1, maxq + 1):
        p = round(x * q)
        if p != 0 and abs(p) <= maxp and abs(x * q - p) <= 4e-16 * max(abs(p), 1.0) * 2:
            return Fraction(p, q)
    return None


_const_cache = {}


def float_to_z3(x):
    """exact rational of the double, except that doubles which are (small rational) x (named
    irrational constant) are mapped to the symbolic constant."""
    x = float(x)
    if x in _const_cache:
        return _const_cache[x]
    if not math.isfinite(x):
        raise PathAbort("unsupported", f"non-finite float {x}")
    out = None
    if x != 0 and _small_ratio(x, 1024, 1 << 20) is None and abs(x) > 1e-9:
        for name, sym in _ADDITIVE:
            r = _small_ratio(x / CONST_VALUES[name])
            if r is not None:
                out = z3.RealVal(f"{r.numerator}/{r.denominator}") * sym
                break
        if out is None:
            for val, exps in _MONO:
                r = _small_ratio(x / val)
                if r is not None:
                    out = z3.RealVal(f"{r.numerator}/{r.denominator}") * _mono_expr(exps)
                    break
    if out is None:
        f = Fraction(x)
        out = z3.RealVal(f"{f.numerator}/{f.denominator}")
    _const_cache[x] = out
    return out


# --------------------------------------------------------------------------------------
# executor
# --------------------------------------------------------------------------------------
class Ctx:
    truncated_forks = 0
    cur = None

    def __init__(self, preset=(), pending=None, branch_timeout_ms=3000, max_int_fork=16):
        self.pc = []  # path condition (branch outcomes)
        self.side = []  # definitions of fresh variables and input preconditions
        self.assume = []  # definedness assumptions (divisor != 0, log arg > 0 ...)
        self.decisions = []
        self.preset = list(preset)
        self.pending = pending if pending is not None else []
        self.nfresh = 0
        self.branch_timeout_ms = branch_timeout_ms
        self.max_int_fork = max_int_fork
        self.queries = 0
        self.solver_s = 0.0
        self.floor_cache = {}
        self.axioms_in_branch = False
        self.axioms_in_trunc = False
        self.floor_lemmas = False
        self.floor_fork = None
        self.floor_list = []
        self.concretise = False   # hunt mode: float() of a symbolic value picks one feasible value instead of giving up
        self.concretised = []
        self.inputs = {}  # name -> z3 const (harness inputs, for model extraction)
        self.free_choices = {}  # name -> concrete value chosen by an unconstrained fork
        self.notes = []

    # -- fresh symbols
    def fresh(self, prefix, sort="R"):
        self.nfresh += 1
        n = f"{prefix}!{self.nfresh}"
        return z3.Real(n) if sort == "R" else z3.Int(n)

    def hyps(self):
        return list(self.side) + list(self.assume) + list(self.pc)

    def feasible(self, *extra):
        """over-approximate feasibility (used only to prune exploration): first without the
        transcendental axioms (fast), then, if that is sat, a short attempt with them."""
        from .solve import solve

        t = time.time()
        self.queries += 1
        cs = self.hyps() + list(extra)
        st, _ = solve(cs, timeout_ms=self.branch_timeout_ms, want_model=False, use_axioms=False)
        if st == "sat" and self.axioms_in_branch:
            st, _ = solve(cs, timeout_ms=max(300, self.branch_timeout_ms // 5), want_model=False)
        self.solver_s += time.time() - t
        return st != "unsat"

    def branch(self, cond):
        cond = z3.simplify(cond)
        if z3.is_true(cond):
            return True
        if z3.is_false(cond):
            return False
        i = len(self.decisions)
        if i < len(self.preset):
            d = self.preset[i]
            assert d[0] == "b", "decision kind mismatch on replay"
            d = d[1]
        else:
            can_t = self.feasible(cond)
            can_f = self.feasible(z3.Not(cond))
            if can_t and can_f:
                d = True
                self.pending.append(self.decisions + [("b", False)])
            elif can_t:
                d = True
            elif can_f:
                d = False
            else:
                raise PathAbort("infeasible")
        self.decisions.append(("b", d))
        self.pc.append(cond if d else z3.Not(cond))
        return d

    def choose_index(self, conds):
        """fork over mutually exclusive alternatives `conds` (z3 Bools); returns the index taken.
        Alternatives none of which holds are outside the explored bound."""
        i = len(self.decisions)
        if i < len(self.preset):
            d = self.preset[i]
            assert d[0] == "c"
            k = d[1]
        else:
            feas = [j for j, cnd in enumerate(conds) if self.feasible(cnd)]
            if not feas:
                raise PathAbort("bound", "no alternative of a bounded fork is feasible")
            k = feas[0]
            for other in reversed(feas[1:]):
                self.pending.append(self.decisions + [("c", other)])
        self.decisions.append(("c", k))
        self.pc.append(conds[k])
        return k

    def choose_free(self, n):
        """fork over n unconstrained alternatives (no solver involved); returns the index"""
        i = len(self.decisions)
        if i < len(self.preset):
            d = self.preset[i]
            assert d[0] == "f"
            k = d[1]
        else:
            k = 0
            for other in range(n - 1, 0, -1):
                self.pending.append(self.decisions + [("f", other)])
        self.decisions.append(("f", k))
        return k

    def concretise_value(self, e):
        """hunt mode only: bind the real term e to one concrete double that the path condition allows (classic concolic
        concretisation).  The path then covers that value only, so nothing is *proved* on it; violations found on it
        are ordinary counterexamples (replayed like every other)."""
        from .solve import solve
        i = len(self.decisions)
        if i < len(self.preset):
            d = self.preset[i]
            assert d[0] == "v"
            fr = d[1]
        else:
            fr = None
            st, mv = solve(self.hyps(), timeout_ms=self.branch_timeout_ms * 3, want_model=True, use_axioms=False)
            cands = []
            if st == "sat" and mv is not None:
                try:
                    v = mv.value(e)
                    cands += [Fraction(float(v)), Fraction(round(float(v), 3)).limit_denominator(1000)]
                except Exception:  # noqa: BLE001
                    pass
            cands += [Fraction(0), Fraction(1), Fraction(-1), Fraction(1, 2), Fraction(2)]
            for c in cands:
                if self.feasible(e == z3.RealVal(str(c))):
                    fr = c
                    break
            if fr is None:
                raise PathAbort("unsupported", "no concrete value found for a symbolic float()")
        self.decisions.append(("v", fr))
        self.pc.append(e == z3.RealVal(str(fr)))
        self.concretised.append(str(fr))
        return float(fr)

    def choose_trunc(self, x):
        """fork over k = trunc(x) for a real term x"""
        from .solve import solve

        def cond(k):
            if k > 0:
                return z3.And(x >= k, x < k + 1)
            if k < 0:
                return z3.And(x <= k, x > k - 1)
            return z3.And(x > -1, x < 1)
        i = len(self.decisions)
        if i < len(self.preset):
            d = self.preset[i]
            assert d[0] == "t"
            k = d[1]
        else:
            found = []
            # an unbounded value (|x| may exceed 1000): explore two small alternatives only and say so
            stb = "unsat"
            if self.concretise:   # hunt mode only (see harness.run_unit): never on the exhaustive run
                stb, _ = solve(self.hyps() + [z3.Or(x > 1000, x < -1000)], timeout_ms=self.branch_timeout_ms, want_model=False, use_axioms=False)
            if stb == "sat":
                for _rep in range(2):
                    st, model = solve(self.hyps() + [x > -4, x < 4] + [z3.Not(cond(k)) for k in found], timeout_ms=self.branch_timeout_ms * 2, use_axioms=False)
                    if st != "sat":
                        break
                    found.append(int(model.value(x)))
                if found:
                    self.notes.append(f"int() of an unbounded value: only the alternatives {found} explored")
                    Ctx.truncated_forks += 1
            while not (stb == "sat" and found):
                t = time.time()
                self.queries += 1
                st, model = solve(self.hyps() + [z3.Not(cond(k)) for k in found], timeout_ms=self.branch_timeout_ms * 4, use_axioms=self.axioms_in_trunc)
                self.solver_s += time.time() - t
                if st == "unknown":
                    raise PathAbort("unsupported", "int() fork: solver unknown")
                if st == "unsat":
                    break
                found.append(int(model.value(x)))
                if len(found) > self.max_int_fork:
                    raise PathAbort("bound", f"more than {self.max_int_fork} integer alternatives")
            if not found:
                raise PathAbort("infeasible")
            found.sort()
            k = found[0]
            for other in reversed(found[1:]):
                self.pending.append(self.decisions + [("t", other)])
        self.decisions.append(("t", k))
        self.pc.append(cond(k))
        return k

    def choose_int(self, expr, lo=None, hi=None):
        """fork over the feasible integer values of z3 term `expr` (Int or Real sort, the
        caller guarantees it is integer valued); returns a concrete python int."""
        from .solve import solve

        if z3.is_int_value(expr):
            return expr.as_long()
        if z3.is_rational_value(expr) and expr.denominator_as_long() == 1:
            return expr.numerator_as_long()
        i = len(self.decisions)
        if i < len(self.preset):
            d = self.preset[i]
            assert d[0] == "i"
            k = d[1]
        else:
            found = []
            extra = []
            if lo is not None:
                extra.append(expr >= lo)
            if hi is not None:
                extra.append(expr <= hi)
            while True:
                t = time.time()
                self.queries += 1
                st, model = solve(self.hyps() + extra + [expr != v for v in found],
                                  timeout_ms=self.branch_timeout_ms * 4)
                self.solver_s += time.time() - t
                if st != "sat":
                    if st == "unknown":
                        raise PathAbort("unsupported", "int fork: solver unknown")
                    break
                v = model.value(expr)
                k = int(math.floor(v + 0.5))
                found.append(k)
                if len(found) > self.max_int_fork:
                    raise PathAbort("bound", f"more than {self.max_int_fork} integer alternatives")
            if not found:
                raise PathAbort("infeasible")
            found.sort()
            k = found[0]
            for other in reversed(found[1:]):
                self.pending.append(self.decisions + [("i", other)])
        self.decisions.append(("i", k))
        self.pc.append(expr == k)
        return k


def model_value(model, expr):
    v = model.eval(expr, model_completion=True)
    return z3num_to_float(v)


def z3num_to_float(v):
    if z3.is_int_value(v):
        return float(v.as_long())
    if z3.is_rational_value(v):
        return float(Fraction(v.numerator_as_long(), v.denominator_as_long()))
    if z3.is_algebraic_value(v):
        a = v.approx(30)
        return float(Fraction(a.numerator_as_long(), a.denominator_as_long()))
    s = z3.simplify(v)
    if z3.is_rational_value(s):
        return float(Fraction(s.numerator_as_long(), s.denominator_as_long()))
    raise ValueError(f"cannot convert {v} to float")


class PathResult:
    __slots__ = ("ctx", "value", "error", "abort")

    def __init__(self, ctx, value=None, error=None, abort=None):
        self.ctx, self.value, self.error, self.abort = ctx, value, error, abort


def explore(fn, max_paths=2000, branch_timeout_ms=3000, max_int_fork=16, wall_s=None, ctx_opts=None):
    """run fn() along every feasible path.  Returns (results, leftover_pending)."""
    pending = [[]]
    out = []
    t0 = time.time()
    while pending and len(out) < max_paths:
        if wall_s is not None and time.time() - t0 > wall_s:
            break
        preset = pending.pop()
        ctx = Ctx(preset, pending, branch_timeout_ms, max_int_fork)
        for k, v in (ctx_opts or {}).items():
            setattr(ctx, k, v)
        Ctx.cur = ctx
        try:
            res = fn(ctx)
            out.append(PathResult(ctx, value=res))
        except PathAbort as e:
            out.append(PathResult(ctx, abort=e))
        except Exception as e:  # noqa: BLE001 - an exception on a path is a result
            out.append(PathResult(ctx, error=e))
        finally:
            Ctx.cur = None
    return out, pending


# --------------------------------------------------------------------------------------
# proxies
# --------------------------------------------------------------------------------------
def R(x):
    """python/numpy/proxy number -> z3 real term"""
    if isinstance(x, SymReal):
        return x.e
    if isinstance(x, SymBool):
        return z3.If(x.e, z3.RealVal(1), z3.RealVal(0))
    if isinstance(x, (bool, np.bool_)):
        return z3.RealVal(int(x))
    if isinstance(x, (int, np.integer)):
        return z3.RealVal(int(x))
    if isinstance(x, (float, np.floating)):
        return float_to_z3(x)
    if isinstance(x, Fraction):
        return z3.RealVal(f"{x.numerator}/{x.denominator}")
    if isinstance(x, np.ndarray) and x.ndim == 0:
        return R(x.item())
    raise TypeError(f"cannot lift {type(x)} to a symbolic real")


def B(x):
    if isinstance(x, SymBool):
        return x.e
    if isinstance(x, (bool, np.bool_)):
        return z3.BoolVal(bool(x))
    if isinstance(x, (int, np.integer)):
        return z3.BoolVal(bool(x))
    raise TypeError(f"cannot lift {type(x)} to a symbolic bool")


class SymBool:
    __slots__ = ("e",)

    def __init__(self, e):
        self.e = e

    def __bool__(self):
        c = Ctx.cur
        if c is None:
            raise RuntimeError("symbolic branch outside an executor context")
        return c.branch(self.e)

    def __and__(self, o):
        if isinstance(o, np.ndarray):
            return NotImplemented
        return SymBool(z3.And(self.e, B(o)))

    __rand__ = __and__

    def __or__(self, o):
        if isinstance(o, np.ndarray):
            return NotImplemented
        return SymBool(z3.Or(self.e, B(o)))

    __ror__ = __or__

    def __xor__(self, o):
        if isinstance(o, np.ndarray):
            return NotImplemented
        return SymBool(z3.Xor(self.e, B(o)))

    __rxor__ = __xor__

    def __invert__(self):
        return SymBool(z3.Not(self.e))

    def __repr__(self):
        return f"SB({self.e})"

    # numeric use of booleans (True*1.0 etc.)
    def _num(self):
        return SymReal(z3.If(self.e, z3.RealVal(1), z3.RealVal(0)))

    def __mul__(self, o):
        if isinstance(o, np.ndarray):
            return NotImplemented
        return self._num() * o

    __rmul__ = __mul__

    def __add__(self, o):
        if isinstance(o, np.ndarray):
            return NotImplemented
        return self._num() + o

    __radd__ = __add__


def _is_zero(e):
    return z3.is_rational_value(e) and e.numerator_as_long() == 0


def _is_one(e):
    return z3.is_rational_value(e) and e.numerator_as_long() == 1 and e.denominator_as_long() == 1


def _assume(c):
    ctx = Ctx.cur
    if ctx is not None:
        c = z3.simplify(c)
        if z3.is_true(c):
            return
        ctx.assume.append(c)


def _nd(o):
    return isinstance(o, np.ndarray)


def _qreal(q):
    if z3.is_int_value(q):
        return SymReal(z3.RealVal(q.as_long()), ie=q)
    return SymReal(z3.ToReal(q), ie=q)


def _undefined(why):
    """the real code would produce inf/nan here: the value is undefined, i.e. the definedness
    assumption of this path is False (paths are excluded from identities, or reported by
    H.defined where definedness is the property)"""
    ctx = Ctx.cur
    ctx.assume.append(z3.BoolVal(False))
    ctx.notes.append(why)
    return SymReal(ctx.fresh("undef"))


class SymReal:
    """a real-valued z3 term.  `ie` (optional) is an Int-sorted term equal to it."""

    __slots__ = ("e", "ie")

    def __init__(self, e, ie=None):
        self.e = e
        self.ie = ie

    def __repr__(self):
        s = str(self.e)
        return f"S({s if len(s) < 80 else s[:77] + '...'})"

    # ---- arithmetic
    def __add__(s, o):
        if _nd(o):
            return NotImplemented
        b = R(o)
        if _is_zero(b):
            return s
        if _is_zero(s.e):
            return SymReal(b)
        return SymReal(s.e + b)

    def __radd__(s, o):
        if _nd(o):
            return NotImplemented
        b = R(o)
        if _is_zero(b):
            return s
        if _is_zero(s.e):
            return SymReal(b)
        return SymReal(b + s.e)

    def __sub__(s, o):
        if _nd(o):
            return NotImplemented
        b = R(o)
        if _is_zero(b):
            return s
        if s.e.eq(b):
            return SymReal(z3.RealVal(0))
        return SymReal(s.e - b)

    def __rsub__(s, o):
        if _nd(o):
            return NotImplemented
        b = R(o)
        if _is_zero(s.e):
            return SymReal(b)
        return SymReal(b - s.e)

    def __mul__(s, o):
        if _nd(o):
            return NotImplemented
        b = R(o)
        if _is_zero(b) or _is_zero(s.e):
            return SymReal(z3.RealVal(0))
        if _is_one(b):
            return s
        if _is_one(s.e):
            return SymReal(b)
        if s.e.eq(b) and z3.is_app(b) and b.decl().kind() == z3.Z3_OP_UNINTERPRETED and b.decl().name() == "sqrt":
            return SymReal(b.arg(0))  # sqrt(u)^2 == u (u >= 0 is a recorded assumption)
        return SymReal(s.e * b)

    def __rmul__(s, o):
        if _nd(o):
            return NotImplemented
        b = R(o)
        if _is_zero(b) or _is_zero(s.e):
            return SymReal(z3.RealVal(0))
        if _is_one(b):
            return s
        if _is_one(s.e):
            return SymReal(b)
        return SymReal(b * s.e)

    def __truediv__(s, o):
        if _nd(o):
            return NotImplemented
        b = R(o)
        if _is_one(b):
            return s
        if z3.is_rational_value(b):
            if _is_zero(b):
                return _undefined("division by zero")
        else:
            _assume(b != 0)
        if _is_zero(s.e):
            return SymReal(z3.RealVal(0))
        return SymReal(s.e / b)

    def __rtruediv__(s, o):
        if _nd(o):
            return NotImplemented
        a = R(o)
        if z3.is_rational_value(s.e):
            if _is_zero(s.e):
                return _undefined("division by zero")
        else:
            _assume(s.e != 0)
        if _is_zero(a):
            return SymReal(z3.RealVal(0))
        return SymReal(a / s.e)

    def __neg__(s):
        return SymReal(-s.e)

    def __pos__(s):
        return s

    def __abs__(s):
        from .funcs import abs_term
        return SymReal(abs_term(s.e))

    def __pow__(s, o):
        if _nd(o):
            return NotImplemented
        if isinstance(o, SymReal):
            if z3.is_rational_value(o.e):
                o = Fraction(o.e.numerator_as_long(), o.e.denominator_as_long())
                if o.denominator == 1:
                    o = int(o)
                else:
                    o = float(o)
            else:
                return (o * s.log()).exp()
        if isinstance(o, (int, np.integer)) or (isinstance(o, (float, np.floating)) and float(o) == int(o)):
            k = int(o)
            if k == 0:
                return SymReal(z3.RealVal(1))
            r = s.e
            for _ in range(abs(k) - 1):
                r = r * s.e
            if k > 0:
                return SymReal(r)
            if not z3.is_rational_value(s.e):
                _assume(s.e != 0)
            return SymReal(1 / r)
        f = Fraction(float(o)).limit_denominator(1000)
        if abs(float(f) - float(o)) < 1e-15 and f.denominator == 2:
            q = s.sqrt()
            return q ** f.numerator
        return (SymReal(R(o)) * s.log()).exp()

    def __rpow__(s, o):
        if _nd(o):
            return NotImplemented
        return (s * SymReal(R(o)).log()).exp()

    # ---- floor division family
    def _floor_q(s, o):
        """floor(s / o) as (q, f): fresh Int q and fresh Real f in [0,1) with s/o == q + f.
        The integer unknown only occurs linearly; the remainder is f * o."""
        c = Ctx.cur
        a, b = s.e, R(o)
        key = (a.get_id(), b.get_id())
        if key in c.floor_cache:
            return c.floor_cache[key]
        if z3.is_rational_value(b):
            if _is_zero(b):
                raise PathAbort("undefined", "floor division by literal zero")
        else:
            _assume(b != 0)
        q = c.fresh("q", "I")
        f = c.fresh("frac")
        if c.floor_fork is not None:
            # bounded variant: the quotient is forked over a stated small range and becomes a
            # concrete integer on each path (pure real arithmetic afterwards, no Int unknowns)
            lo_q, hi_q = c.floor_fork
            ks = list(range(lo_q, hi_q + 1))
            conds = [z3.If(b > 0, z3.And(a >= k * b, a < (k + 1) * b), z3.And(a <= k * b, a > (k + 1) * b)) for k in ks]
            k = ks[c.choose_index(conds)]
            qk = z3.IntVal(k)
            c.side += [f >= 0, f < 1, a == (z3.RealVal(k) + f) * b]
            FRAC_DEFS[f.get_id()] = (f, a / b)
            c.floor_list.append((a, b, qk, f))
            c.floor_cache[key] = (qk, f)
            return qk, f
        x = c.fresh("quot")
        c.side += [x * b == a, f == x - z3.ToReal(q), f >= 0, f < 1]
        FRAC_DEFS[f.get_id()] = (f, a / b)
        # always-true lemma instances relating this quotient to earlier ones with the same divisor
        # (they hand the solver the integer relation instead of leaving it to non-linear search)
        for (a2, b2, q2, f2) in (c.floor_list if c.floor_lemmas else ()):
            if b2.get_id() != b.get_id():
                continue
            lem = [z3.Implies(a <= a2, q <= q2), z3.Implies(a >= a2, q >= q2)]
            for k in (-2, -1, 0, 1, 2):
                lem.append(z3.Implies(a == a2 + k * b, z3.And(q == q2 + k, f == f2)))
                lem.append(z3.Implies(a == -a2 + k * b,
                                      z3.Or(z3.And(q == -q2 - 1 + k, f == 1 - f2), z3.And(f2 == 0, f == 0, q == -q2 + k))))
            c.side.append(z3.Implies(b > 0, z3.And(*lem)))
        c.floor_list.append((a, b, q, f))
        c.floor_cache[key] = (q, f)
        return q, f

    def __floordiv__(s, o):
        if _nd(o):
            return NotImplemented
        q, f = s._floor_q(o)
        return _qreal(q)

    def __rfloordiv__(s, o):
        if _nd(o):
            return NotImplemented
        return SymReal(R(o)) // s

    def __mod__(s, o):
        if _nd(o):
            return NotImplemented
        if s.ie is not None and isinstance(o, (int, np.integer)) and int(o) > 0:
            if z3.is_int_value(s.ie):
                k = s.ie.as_long() % int(o)
                return SymReal(z3.RealVal(k), ie=z3.IntVal(k))
            m = s.ie % int(o)
            if int(o) == 2:  # parity as a boolean case split rather than integer arithmetic
                return SymReal(z3.If(m == 0, z3.RealVal(0), z3.RealVal(1)), ie=m)
            return SymReal(z3.ToReal(m), ie=m)
        q, f = s._floor_q(o)
        return SymReal(f * R(o))

    def __rmod__(s, o):
        if _nd(o):
            return NotImplemented
        return SymReal(R(o)) % s

    def __divmod__(s, o):
        if _nd(o):
            return NotImplemented
        q, f = s._floor_q(o)
        return _qreal(q), SymReal(f * R(o))

    def __rdivmod__(s, o):
        if _nd(o):
            return NotImplemented
        return divmod(SymReal(R(o)), s)

    # ---- comparisons
    def __lt__(s, o):
        if _nd(o):
            return NotImplemented
        return SymBool(s.e < R(o))

    def __le__(s, o):
        if _nd(o):
            return NotImplemented
        return SymBool(s.e <= R(o))

    def __gt__(s, o):
        if _nd(o):
            return NotImplemented
        return SymBool(s.e > R(o))

    def __ge__(s, o):
        if _nd(o):
            return NotImplemented
        return SymBool(s.e >= R(o))

    def __eq__(s, o):
        if _nd(o):
            return NotImplemented
        try:
            return SymBool(s.e == R(o))
        except TypeError:
            return False

    def __ne__(s, o):
        if _nd(o):
            return NotImplemented
        try:
            return SymBool(s.e != R(o))
        except TypeError:
            return True

    __hash__ = None

    # ---- conversions
    def __bool__(s):
        """truth value of a number: x != 0 (`kappa or default`, `if width:` ...): forks like any other condition"""
        if z3.is_rational_value(s.e):
            return s.e.numerator_as_long() != 0
        return bool(SymBool(s.e != 0))

    def __float__(s):
        c = Ctx.cur
        if z3.is_rational_value(s.e):
            return float(Fraction(s.e.numerator_as_long(), s.e.denominator_as_long()))
        if c is not None and c.concretise:
            return c.concretise_value(s.e)
        raise Realification("float() of a symbolic value")

    def __int__(s):
        """python int(): truncation toward zero; forks over the feasible values (pure real
        encoding: alternative k is the condition trunc(x) == k)"""
        c = Ctx.cur
        if s.ie is not None:
            return c.choose_int(s.ie)
        if z3.is_rational_value(s.e):
            f = Fraction(s.e.numerator_as_long(), s.e.denominator_as_long())
            return int(f)
        return c.choose_trunc(s.e)

    def __index__(s):
        c = Ctx.cur
        if z3.is_rational_value(s.e) and s.e.denominator_as_long() == 1:
            return s.e.numerator_as_long()
        if s.ie is not None:
            return c.choose_int(s.ie)
        raise Realification("non-integer symbolic value used as an index")

    def __round__(s, n=None):
        raise Realification("round() of a symbolic value")

    def conjugate(s):
        return s

    conj = conjugate

    @property
    def real(s):
        return s

    @property
    def imag(s):
        return SymReal(z3.RealVal(0))

    def copy(s):
        return s

    def __copy__(s):
        return s

    def __deepcopy__(s, memo):
        return s

    def item(s):
        return s

    # ---- transcendental methods are attached by symnp.funcs


def sym(name):
    return SymReal(z3.Real(name))


def lift(x):
    return x if isinstance(x, SymReal) else SymReal(R(x))


def symarr(name, *shape):
    a = np.empty(shape, dtype=object)
    for idx in itertools.product(*map(range, shape)):
        a[idx] = sym(name + "".join(f"_{i}" for i in idx))
    return a


def ozeros(shape, dtype=None, **kw):
    """object-dtype replacement for numpy.zeros (elements are symbolic zeros); integer / boolean
    arrays stay concrete"""
    if dtype is not None and dtype is not object and np.issubdtype(np.dtype(dtype), np.integer) or dtype is bool:
        return np.zeros(shape, dtype=dtype)
    a = np.empty(shape, dtype=object)
    a.fill(SymReal(z3.RealVal(0)))
    return a


def oones(shape, dtype=None, **kw):
    a = np.empty(shape, dtype=object)
    a.fill(SymReal(z3.RealVal(1)))
    return a


def lift_array(x):
    """array of numbers -> object array of SymReal"""
    x = np.asarray(x)
    out = np.empty(x.shape, dtype=object)
    for idx in np.ndindex(x.shape):
        out[idx] = lift(x[idx])
    return out


def exprs(a):
    """flat list of z3 terms of an array / scalar of proxies"""
    if isinstance(a, (SymReal, SymBool)):
        return [a.e]
    if isinstance(a, np.ndarray):
        return [R(v) for v in a.ravel()]
    if isinstance(a, (list, tuple)):
        out = []
        for v in a:
            out.extend(exprs(v))
        return out
    return [R(a)]


# numpy-scalar-like conveniences (0-d results of numpy reductions are unwrapped to the element)
def _self(s, *a, **k):
    return s


for _n in ("sum", "squeeze", "mean", "max", "min", "flatten", "ravel", "prod", "cumsum"):
    setattr(SymReal, _n, _self)
SymReal.ndim = 0
SymReal.size = 1
SymReal.shape = ()
SymReal.T = property(lambda s: s)
SymReal.dtype = np.dtype(object)
SymReal.astype = lambda s, *a, **k: s
SymReal.reshape = lambda s, *shape: np.array([s], dtype=object).reshape(*shape)

for _n in ("any", "all", "squeeze"):
    setattr(SymBool, _n, _self)


class ForkingArray(np.ndarray):
    """object ndarray whose comparisons are decided element by element through the executor
    (path fork) and returned as a concrete boolean array - needed where the code uses the
    result of a comparison as a boolean mask / index."""

    def _cmp(self, other, op):
        a = np.asarray(self).view(np.ndarray)
        b = np.asarray(other)
        aa, bb = np.broadcast_arrays(a, b)
        out = np.empty(aa.shape, dtype=bool)
        for idx in np.ndindex(aa.shape):
            out[idx] = bool(op(aa[idx], bb[idx]))
        return out

    def __lt__(self, o):
        return self._cmp(o, lambda x, y: x < y)

    def __le__(self, o):
        return self._cmp(o, lambda x, y: x <= y)

    def __gt__(self, o):
        return self._cmp(o, lambda x, y: x > y)

    def __ge__(self, o):
        return self._cmp(o, lambda x, y: x >= y)


def forking(a):
    return np.asarray(a, dtype=object).view(ForkingArray)
