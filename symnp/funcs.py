"""transcendental functions as uninterpreted functions + construction-time normalisation by
identities that hold for all reals where both sides are defined.  Definedness assumptions
(log argument > 0, sqrt argument >= 0) are recorded in Ctx.assume."""
import math
from fractions import Fraction

import numpy as np
import z3

from .fingerprint import fingerprint, neg_oriented
from .core import (RS, SymReal, Ctx, R, lift, _assume, _is_zero, _is_one,
                   PI, SQRT2, SQRTPI, SQRT3, LOG2PI, LOG2, LOGPI, E1)

UF = {n: z3.Function(n, RS, RS) for n in ["exp", "log", "sqrt", "erf", "erfcx", "tanh", "cos", "sin", "abs"]}


def is_uf(e, name=None):
    if not (z3.is_app(e) and e.decl().kind() == z3.Z3_OP_UNINTERPRETED and e.num_args() > 0):
        return False
    return name is None or e.decl().name() == name


def frac_of(e):
    return Fraction(e.numerator_as_long(), e.denominator_as_long())


def rv(f):
    f = Fraction(f)
    return z3.RealVal(f"{f.numerator}/{f.denominator}")


def linear_terms(e):
    """e == sum(c * t) with rational c; splits + - unary-minus and multiplication/division by a
    rational constant.  Returns list of (Fraction, term) with term None for the constant."""
    out = []

    def walk(x, c):
        if z3.is_rational_value(x):
            out.append((c * frac_of(x), None))
            return
        if z3.is_app(x):
            k = x.decl().kind()
            ch = x.children()
            if k == z3.Z3_OP_ADD:
                for y in ch:
                    walk(y, c)
                return
            if k == z3.Z3_OP_SUB:
                walk(ch[0], c)
                for y in ch[1:]:
                    walk(y, -c)
                return
            if k == z3.Z3_OP_UMINUS:
                walk(ch[0], -c)
                return
            if k == z3.Z3_OP_MUL:
                consts = [y for y in ch if z3.is_rational_value(y)]
                rest = [y for y in ch if not z3.is_rational_value(y)]
                if consts:
                    cc = c
                    for y in consts:
                        cc *= frac_of(y)
                    if not rest:
                        out.append((cc, None))
                    elif len(rest) == 1:
                        walk(rest[0], cc)
                    else:
                        p = rest[0]
                        for y in rest[1:]:
                            p = p * y
                        out.append((cc, p))
                    return
            if k == z3.Z3_OP_DIV and z3.is_rational_value(ch[1]) and not _is_zero(ch[1]):
                walk(ch[0], c / frac_of(ch[1]))
                return
            if k == z3.Z3_OP_DIV and _is_zero(ch[0]):
                return  # 0/x == 0 wherever it is defined (x != 0 is a recorded assumption)
        out.append((c, x))

    walk(e, Fraction(1))
    # group identical terms
    grouped = {}
    order = []
    for c, t in out:
        key = None if t is None else t.get_id()
        if key not in grouped:
            grouped[key] = [Fraction(0), t]
            order.append(key)
        grouped[key][0] += c
    return [(grouped[k][0], grouped[k][1]) for k in order if grouped[k][0] != 0]


def _ipow(base, k):
    r = z3.RealVal(1)
    for _ in range(abs(k)):
        r = r * base
    return r


_EXP_OF_CONST = {LOG2PI.get_id(): (2 * PI, SQRT2 * SQRTPI), LOG2.get_id(): (z3.RealVal(2), SQRT2),
                 LOGPI.get_id(): (PI, SQRTPI)}


def exp_term(e):
    """z3 term for exp(e), normalised to a product/quotient of canonical atoms"""
    e = z3.simplify(e)
    num, den = [], []
    for c, t in linear_terms(e):
        if t is None:
            if c.denominator == 1 and abs(c.numerator) <= 3:
                (num if c > 0 else den).append(_ipow(E1, abs(c.numerator)))
            else:
                (num if c > 0 else den).append(UF["exp"](rv(abs(c))))
            continue
        if t.get_id() in _EXP_OF_CONST:
            whole, half = _EXP_OF_CONST[t.get_id()]
            if c.denominator == 1:
                (num if c > 0 else den).append(_ipow(whole, abs(c.numerator)))
                continue
            if c.denominator == 2:
                (num if c > 0 else den).append(_ipow(half, abs(c.numerator)))
                continue
        if is_uf(t, "log"):
            u = t.arg(0)
            if c.denominator == 1 and abs(c.numerator) <= 8:
                (num if c > 0 else den).append(_ipow(u, abs(c.numerator)))
                continue
            if c.denominator == 2 and abs(c.numerator) <= 8:
                (num if c > 0 else den).append(_ipow(sqrt_term(u), abs(c.numerator)))
                continue
        a = abs(c)
        # canonical orientation of the atom's argument c*t: exp(-w) is written 1/exp(w).  The choice
        # is made on the value of the whole term so that syntactically different splittings of the
        # same argument (c=1, t=-x/2  vs  c=-1/2, t=x) agree.
        fp = fingerprint(t)
        pos = c > 0
        if fp is not None:
            from .fingerprint import P as _P
            full = (c.numerator % _P) * pow(c.denominator % _P, _P - 2, _P) % _P * fp % _P
            want_pos = not neg_oriented(full)  # orientation of the atom exp(|c| * t') with t' = +-t
            if want_pos != pos:
                t = z3.simplify(-t)
                pos = not pos
        if a.denominator == 1 and a.numerator <= 6:
            atom = _ipow(UF["exp"](t), a.numerator)
        else:
            atom = UF["exp"](z3.simplify(rv(a) * t))
        (num if pos else den).append(atom)
    n = z3.RealVal(1)
    for x in num:
        n = x if _is_one(n) else n * x
    if den:
        d = den[0]
        for x in den[1:]:
            d = d * x
        return n / d
    return n


_LOG_OF_CONST = {PI.get_id(): [(Fraction(1), LOGPI)], SQRTPI.get_id(): [(Fraction(1, 2), LOGPI)],
                 SQRT2.get_id(): [(Fraction(1, 2), LOG2)], E1.get_id(): [(Fraction(1), None)],
                 SQRT3.get_id(): [(Fraction(1, 2), UF["log"](z3.RealVal(3)))]}


def log_parts(e, coef, out, assume):
    """append (coef, term) pairs with log(e)*coef == sum coef_i * term_i (term None = constant 1)"""
    if z3.is_rational_value(e):
        f = frac_of(e)
        if f <= 0:
            from .core import PathAbort
            raise PathAbort("unsupported", "log of a non-positive constant")
        if f == 1:
            return
        # powers of two are exact in terms of LOG2
        n, d = f.numerator, f.denominator
        if n & (n - 1) == 0 and d & (d - 1) == 0:
            out.append((coef * (n.bit_length() - d.bit_length()), LOG2))
            return
        out.append((coef, UF["log"](e)))
        return
    if z3.is_const(e) and e.get_id() in _LOG_OF_CONST:
        for c, t in _LOG_OF_CONST[e.get_id()]:
            out.append((coef * c, t))
        return
    if z3.is_app(e):
        k = e.decl().kind()
        ch = e.children()
        if k == z3.Z3_OP_MUL and not any(z3.is_rational_value(y) and frac_of(y) <= 0 for y in ch):
            for y in ch:
                log_parts(y, coef, out, assume)
            return
        if k == z3.Z3_OP_DIV and not any(z3.is_rational_value(y) and frac_of(y) <= 0 for y in ch):
            log_parts(ch[0], coef, out, assume)
            log_parts(ch[1], -coef, out, assume)
            return
        if k == z3.Z3_OP_POWER and z3.is_rational_value(ch[1]):
            log_parts(ch[0], coef * frac_of(ch[1]), out, assume)
            return
        if is_uf(e, "exp"):
            out.append((coef, ("raw", e.arg(0))))
            return
        if is_uf(e, "sqrt"):
            log_parts(e.arg(0), coef / 2, out, assume)
            return
    assume.append(e > 0)
    out.append((coef, UF["log"](e)))


def log_term(e):
    e = z3.simplify(e)
    parts, assume = [], []
    log_parts(e, Fraction(1), parts, assume)
    for a in assume:
        _assume(a)
    tot = None
    for c, t in parts:
        if t is None:
            term = rv(c)
        elif isinstance(t, tuple):
            term = t[1] if c == 1 else rv(c) * t[1]
        else:
            term = t if c == 1 else rv(c) * t
        tot = term if tot is None else tot + term
    return tot if tot is not None else z3.RealVal(0)


def sqrt_term(e):
    e = z3.simplify(e)
    if z3.is_rational_value(e):
        f = frac_of(e)
        if f < 0:
            from .core import PathAbort
            raise PathAbort("unsupported", "sqrt of a negative constant")
        rn, rd = math.isqrt(f.numerator), math.isqrt(f.denominator)
        if rn * rn == f.numerator and rd * rd == f.denominator:
            return rv(Fraction(rn, rd))
        if f == 2:
            return SQRT2
        if f == 3:
            return SQRT3
        if f == Fraction(1, 2):
            return 1 / SQRT2
    if z3.is_const(e) and e.get_id() == PI.get_id():
        return SQRTPI
    _assume(e >= 0)
    return UF["sqrt"](e)


def _neg_leading(e):
    fp = fingerprint(e)
    if fp is not None and fp != 0:
        return neg_oriented(fp)
    lt = linear_terms(e)
    return bool(lt) and lt[0][0] < 0


def abs_term(e):
    e = z3.simplify(e)
    if z3.is_rational_value(e):
        return rv(abs(frac_of(e)))
    if is_uf(e, "abs") or is_uf(e, "exp") or is_uf(e, "sqrt"):
        return e
    fp = fingerprint(e)
    if fp is not None and neg_oriented(fp):
        e = z3.simplify(-e)
    return UF["abs"](e)


def erf_term(e):
    e = z3.simplify(e)
    if _is_zero(e):
        return z3.RealVal(0)
    if _neg_leading(e):
        return -UF["erf"](z3.simplify(-e))
    return UF["erf"](e)


def tanh_term(e):
    e = z3.simplify(e)
    if _is_zero(e):
        return z3.RealVal(0)
    if _neg_leading(e):
        return -UF["tanh"](z3.simplify(-e))
    return UF["tanh"](e)


def erfcx_term(e):
    return UF["erfcx"](z3.simplify(e))


def _m(fn):
    def method(s, *a, **k):
        return SymReal(fn(s.e))
    return method


SymReal.exp = _m(exp_term)
SymReal.log = _m(log_term)
SymReal.sqrt = _m(sqrt_term)
SymReal.erf = _m(erf_term)
SymReal.tanh = _m(tanh_term)
SymReal.erfcx = _m(erfcx_term)
SymReal.erfc = lambda s: SymReal(1 - erf_term(s.e))
SymReal.cos = _m(lambda e: UF["cos"](z3.simplify(e)))
SymReal.sin = _m(lambda e: UF["sin"](z3.simplify(e)))
SymReal.log1p = lambda s: SymReal(log_term(1 + s.e))
SymReal.square = lambda s: s * s


# module-level functions usable on scalars, proxies and arrays alike
def _vec(name):
    def f(x, *a, **k):
        if isinstance(x, SymReal):
            return getattr(x, name)()
        if isinstance(x, np.ndarray) and x.dtype == object:
            out = np.empty(x.shape, dtype=object)
            for idx in np.ndindex(x.shape):
                out[idx] = getattr(lift(x[idx]), name)()
            return out
        if isinstance(x, (list, tuple)):
            return f(np.asarray(x, dtype=object))
        return getattr(np, name)(x)
    f.__name__ = name
    return f


exp = _vec("exp")
log = _vec("log")
sqrt = _vec("sqrt")
tanh = _vec("tanh")


def erf(x):
    import scipy.special as sp
    if isinstance(x, SymReal):
        return x.erf()
    if isinstance(x, np.ndarray) and x.dtype == object:
        out = np.empty(x.shape, dtype=object)
        for idx in np.ndindex(x.shape):
            out[idx] = lift(x[idx]).erf()
        return out
    return sp.erf(x)


def erfcx(x):
    import scipy.special as sp
    if isinstance(x, SymReal):
        return x.erfcx()
    if isinstance(x, np.ndarray) and x.dtype == object:
        out = np.empty(x.shape, dtype=object)
        for idx in np.ndindex(x.shape):
            out[idx] = lift(x[idx]).erfcx()
        return out
    return sp.erfcx(x)


def logaddexp(a, b):
    """log(exp(a) + exp(b)) elementwise (numpy has no object loop for it)"""
    def one(u, v):
        if not isinstance(u, SymReal) and not isinstance(v, SymReal):
            return float(np.logaddexp(u, v))
        return (lift(u).exp() + lift(v).exp()).log()
    if isinstance(a, np.ndarray) or isinstance(b, np.ndarray):
        return np.frompyfunc(one, 2, 1)(a, b)
    return one(a, b)


def isfinite(x):
    """symbolic reals are finite by construction"""
    if isinstance(x, SymReal):
        return True
    if isinstance(x, np.ndarray) and x.dtype == object:
        return np.ones(x.shape, dtype=bool)
    return np.isfinite(x)


_TERM = {"exp": exp_term, "log": None, "sqrt": sqrt_term, "abs": abs_term, "erf": erf_term, "tanh": tanh_term}


def renorm(e, memo=None):
    """re-normalise a term after substitution: rebuild transcendental atoms through their
    constructors (so e.g. exp(-(0/x)) becomes 1) and drop 0/x"""
    memo = {} if memo is None else memo
    i = e.get_id()
    if i in memo:
        return memo[i][1]
    r = _renorm(e, memo)
    memo[i] = (e, r)
    return r


def _renorm(e, memo):
    if not z3.is_app(e) or e.num_args() == 0:
        return e
    ch = [renorm(c, memo) for c in e.children()]
    k = e.decl().kind()
    if k == z3.Z3_OP_DIV and _is_zero(z3.simplify(ch[0])):
        return z3.RealVal(0)
    if k == z3.Z3_OP_UNINTERPRETED:
        n = e.decl().name()
        if n == "log":
            return log_term(ch[0])
        if n in _TERM:
            return _TERM[n](ch[0])
        return e.decl()(*ch)
    if k == z3.Z3_OP_ADD:
        return z3.Sum(ch)
    if k == z3.Z3_OP_MUL:
        r = ch[0]
        for c in ch[1:]:
            r = r * c
        return r
    try:
        return e.decl()(*ch)
    except z3.Z3Exception:
        return z3.substitute(e, *[(a, b) for a, b in zip(e.children(), ch) if not a.eq(b)])


def _sel(cond_lt, a, b):
    """a if a<b else b, as a term (no path fork)"""
    return SymReal(z3.If(cond_lt, R(a), R(b)))


def minimum(a, b):
    def one(u, v):
        if isinstance(u, SymReal) or isinstance(v, SymReal):
            return _sel(R(u) <= R(v), u, v)
        return min(u, v)
    if isinstance(a, np.ndarray) or isinstance(b, np.ndarray):
        if (isinstance(a, np.ndarray) and a.dtype == object) or (isinstance(b, np.ndarray) and b.dtype == object):
            return np.frompyfunc(one, 2, 1)(a, b)
        return np.minimum(a, b)
    return one(a, b)


def maximum(a, b):
    def one(u, v):
        if isinstance(u, SymReal) or isinstance(v, SymReal):
            return _sel(R(u) >= R(v), u, v)
        return max(u, v)
    if isinstance(a, np.ndarray) or isinstance(b, np.ndarray):
        if (isinstance(a, np.ndarray) and a.dtype == object) or (isinstance(b, np.ndarray) and b.dtype == object):
            return np.frompyfunc(one, 2, 1)(a, b)
        return np.maximum(a, b)
    return one(a, b)


def cov(m, y=None, rowvar=True, **kw):
    """numpy.cov for object arrays (rows are variables): unbiased sample covariance"""
    m = np.asarray(m)
    if m.dtype != object:
        return np.cov(m, y, rowvar, **kw)
    if m.ndim == 1:
        m = m[None, :]
    if not rowvar:
        m = m.T
    nv, n = m.shape
    mean = [sum(m[i, :]) / n for i in range(nv)]
    out = np.empty((nv, nv), dtype=object)
    for i in range(nv):
        for j in range(nv):
            out[i, j] = sum((m[i, k] - mean[i]) * (m[j, k] - mean[j]) for k in range(n)) / (n - 1)
    return out if nv > 1 else out[0, 0]
