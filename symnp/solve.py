"""Ackermann abstraction of uninterpreted applications + guarded axiom instances + QF_NRA
solving.  `unsat` is sound (abstraction and axiom instances only weaken / add true facts);
`sat` may be spurious and must be replayed by the caller."""
import itertools
import math
import time
from fractions import Fraction

import z3

from .core import CONST_AXIOMS, z3num_to_float
from .funcs import UF, is_uf, rv
from .fingerprint import fingerprint, ATOM_FP, _memo as _FP_MEMO, P as FP_P

STATS = {"queries": 0, "unsat": 0, "sat": 0, "unknown": 0, "solver_s": 0.0}


def _collect(exprs):
    apps, seen, has_int = {}, set(), [False]

    def walk(e):
        i = e.get_id()
        if i in seen:
            return
        seen.add(i)
        if z3.is_app(e):
            for c in e.children():
                walk(c)
            k = e.decl().kind()
            if k == z3.Z3_OP_UNINTERPRETED and e.num_args() > 0:
                apps[i] = e
            if k == z3.Z3_OP_TO_REAL or (z3.is_const(e) and z3.is_int(e) and not z3.is_int_value(e)):
                has_int[0] = True
            if z3.is_fp(e):
                has_int[0] = True  # IEEE terms: default solver (bit-blasting), never nlsat

    for e in exprs:
        walk(e)
    return list(apps.values()), has_int[0]


_same_cache = {}


def _same_term(a, b, wildcard=False):
    if a.eq(b):
        return True
    key = (a.get_id(), b.get_id())
    if key in _same_cache:
        return _same_cache[key][2]
    fa, fb = fingerprint(a), fingerprint(b)
    if fa is not None and fb is not None and fa != fb:
        r = False
    elif (fa is None or fb is None) and not wildcard:
        return False
    else:
        from .ratform import is_identically_zero
        r = is_identically_zero(a - b, _SQRT_REL)
    _same_cache[key] = (a, b, r)
    return r


_SQRT_REL = []  # (atom, abstracted argument) of the sqrt atoms of the abstraction being built


def _log_power_relation(a, r):
    """rational k with a == r^k as rational functions (so log a == k log r), k in {-1, 2, -2, 1/2, -1/2}"""
    from .ratform import is_identically_zero
    fa, fr = fingerprint(a), fingerprint(r)
    M = FP_P
    known = fa is not None and fr is not None

    def ok(cond):
        return (not known) or cond()
    if ok(lambda: fa * fr % M == 1) and is_identically_zero(a * r - 1, _SQRT_REL):
        return z3.RealVal(-1)
    if ok(lambda: fa == fr * fr % M) and is_identically_zero(a - r * r, _SQRT_REL):
        return z3.RealVal(2)
    if ok(lambda: fa * fr % M * fr % M == 1) and is_identically_zero(a * r * r - 1, _SQRT_REL):
        return z3.RealVal(-2)
    if ok(lambda: fa * fa % M == fr) and is_identically_zero(a * a - r, _SQRT_REL):
        return z3.RealVal("1/2")
    if ok(lambda: fa * fa % M * fr % M == 1) and is_identically_zero(a * a * r - 1, _SQRT_REL):
        return z3.RealVal("-1/2")
    return None


class Abstraction:
    def __init__(self, exprs, merge=True):
        self.apps, self.has_int = _collect(exprs)
        # applications whose arguments are syntactically equal after polynomial normalisation
        # share one atom (a sound instance of congruence, applied eagerly)
        reps = {}
        self.sub = []
        self.atoms = []  # one (representative app, atom) per distinct atom
        del _SQRT_REL[:]
        for i, a in enumerate(self.apps):  # post-order: inner applications first
            name = a.decl().name()
            # arguments with the inner applications already replaced by their (merged) atoms
            aargs = [z3.substitute(a.arg(k), *self.sub) if self.sub else a.arg(k) for k in range(a.num_args())]
            atom = None
            # arguments without a fingerprint (sqrt of a non-residue at the evaluation point) are compared
            # by normal form anyway for the built-in functions, where there are few atoms
            wild = name in ("log", "sqrt", "abs", "exp", "erf", "erfcx") and len(reps.get(name, [])) <= 12
            for (r, rargs, v) in (reps.get(name, []) if merge else ()):
                if len(rargs) == len(aargs) and all(_same_term(x, y, wild) for x, y in zip(rargs, aargs)):
                    atom = v
                    break
            if not merge:
                for (r, rargs, v) in reps.get(name, []):
                    if all(x.eq(y) for x, y in zip(rargs, aargs)):
                        atom = v
                        break
            if atom is None and name == "log" and merge:
                # log(1/u) == -log(u): reuse the atom of a reciprocal argument
                for (r, rargs, v) in reps.get(name, []):
                    k = _log_power_relation(aargs[0], rargs[0])
                    if k is not None:
                        atom = k * v
                        break
            if atom is None and name == "log" and merge:
                # log(u) == log(r1) +- log(r2) when u == r1 * r2 or u == r1 / r2 as rational functions
                lst = reps.get(name, [])
                fa = fingerprint(aargs[0])
                if len(lst) <= 10:
                    from .ratform import is_identically_zero
                    for (r1, ra1, v1), (r2, ra2, v2) in itertools.permutations(lst, 2):
                        f1, f2 = fingerprint(ra1[0]), fingerprint(ra2[0])
                        known = None not in (fa, f1, f2)
                        if r1.get_id() < r2.get_id() and (not known or fa == f1 * f2 % FP_P) \
                                and is_identically_zero(aargs[0] - ra1[0] * ra2[0], _SQRT_REL):
                            atom = v1 + v2
                            break
                        if (not known or fa * f2 % FP_P == f1) and is_identically_zero(aargs[0] * ra2[0] - ra1[0], _SQRT_REL):
                            atom = v1 - v2
                            break
            if atom is None:
                atom = z3.Real(f"@{name}#{i}")
                # the atom evaluates like the application it stands for (keeps s^2 = u etc. exact)
                _FP_MEMO.pop(atom.get_id(), None)
                ATOM_FP[atom.get_id()] = (atom, fingerprint(a))
                reps.setdefault(name, []).append((a, aargs, atom))
                self.atoms.append((a, atom))
                if name == "sqrt":
                    _SQRT_REL.append((atom, aargs[0]))
            self.sub.append((a, atom))
        self._cache = {}

    def __call__(self, e):
        key = e.get_id()
        if key in self._cache:
            return self._cache[key][1]
        x = e
        if self.sub:
            for _ in range(30):
                y = z3.substitute(x, *self.sub)
                if y.eq(x):
                    break
                x = y
        self._cache[key] = (e, x)
        return x

    def by_name(self):
        d = {}
        for a, v in self.atoms:
            d.setdefault(a.decl().name(), []).append((a, v))
        return d


def _enclosure(f, x, rel=1e-13):
    v = f(x)
    lo, hi = v * (1 - rel) if v > 0 else v * (1 + rel), v * (1 + rel) if v > 0 else v * (1 - rel)
    return rv(Fraction(lo)), rv(Fraction(hi))


def axioms(ab, max_pairs=3000, max_triples=600):
    """always-true facts about the abstracted atoms"""
    ax = []
    by = ab.by_name()
    A = lambda a, i=0: ab(a.arg(i))  # noqa: E731

    # congruence for every function symbol (user UFs included)
    for name, lst in by.items():
        for (a, va), (b, vb) in itertools.islice(itertools.combinations(lst, 2), max_pairs * 4):
            ax.append(z3.Implies(z3.And(*[A(a, i) == A(b, i) for i in range(a.num_args())]), va == vb))

    E = by.get("exp", [])
    for a, va in E:
        x = A(a)
        ax += [va > 0, z3.Implies(x == 0, va == 1), va >= 1 + x,
               z3.Implies(x > 0, va > 1), z3.Implies(x < 0, va < 1)]
        if z3.is_rational_value(x):
            f = Fraction(x.numerator_as_long(), x.denominator_as_long())
            if abs(f) < 700:
                lo, hi = _enclosure(math.exp, float(f))
                ax += [va > lo, va < hi]
    for (a, va), (b, vb) in itertools.islice(itertools.combinations(E, 2), max_pairs):
        xa, xb = A(a), A(b)
        ax += [z3.Implies(xa + xb == 0, va * vb == 1), z3.Implies(xa < xb, va < vb), z3.Implies(xa > xb, va > vb),
               z3.Implies(xa + xb > 0, va * vb > 1), z3.Implies(xa + xb < 0, va * vb < 1)]
    if len(E) <= 14:
        cnt = 0
        for (a, va), (b, vb), (c, vc) in itertools.permutations(E, 3):
            if b.get_id() < c.get_id():
                ax.append(z3.Implies(A(a) == A(b) + A(c), va == vb * vc))
                cnt += 1
                if cnt > max_triples:
                    break

    for a, va in by.get("sqrt", []):
        x = A(a)
        ax.append(z3.Implies(x >= 0, z3.And(va >= 0, va * va == x)))
        ax.append(z3.Implies(x > 0, va > 0))
    SQ = by.get("sqrt", [])
    for (a, va), (b, vb) in itertools.islice(itertools.combinations(SQ, 2), max_pairs):
        ax.append(z3.Implies(z3.And(A(a) >= 0, A(a) <= A(b)), va <= vb))
        ax.append(z3.Implies(z3.And(A(b) >= 0, A(b) <= A(a)), vb <= va))

    LG = by.get("log", [])
    for a, va in LG:
        x = A(a)
        ax += [z3.Implies(x == 1, va == 0), z3.Implies(x > 0, va <= x - 1),
               z3.Implies(x > 1, va > 0), z3.Implies(z3.And(x > 0, x < 1), va < 0)]
        if z3.is_rational_value(x):
            f = Fraction(x.numerator_as_long(), x.denominator_as_long())
            if f > 0:
                lo, hi = _enclosure(math.log, float(f))
                ax += [va > lo, va < hi] if f != 1 else []
        for b, vb in E:
            ax.append(z3.Implies(A(b) == va, vb == x))
            ax.append(z3.Implies(x == vb, va == A(b)))
    from .core import LOG2 as _LOG2
    for a, va in LG[:12]:
        x = A(a)
        for k in range(-3, 7):  # log x >= k log 2  <=>  x >= 2^k   (monotonicity against the constant LOG2)
            p2 = z3.RealVal(2) ** k if k >= 0 else 1 / (z3.RealVal(2) ** (-k))
            p2 = z3.simplify(p2)
            ax.append(z3.Implies(x > 0, (x >= p2) == (va >= k * _LOG2)))
    if len(LG) <= 8:
        for (a, va), (b, vb) in itertools.permutations(LG, 2):
            xa, xb = A(a), A(b)
            for k in range(-2, 5):  # log(xa) - log(xb) >= k log 2  <=>  xa >= 2^k xb
                p2 = z3.simplify(z3.RealVal(2) ** k if k >= 0 else 1 / (z3.RealVal(2) ** (-k)))
                ax.append(z3.Implies(z3.And(xa > 0, xb > 0), (xa >= p2 * xb) == (va - vb >= k * _LOG2)))
    for (a, va), (b, vb) in itertools.islice(itertools.combinations(LG, 2), max_pairs):
        xa, xb = A(a), A(b)
        ax.append(z3.Implies(z3.And(xa > 0, xb > 0, xa < xb), va < vb))
        ax.append(z3.Implies(z3.And(xa > 0, xb > 0, xa > xb), va > vb))
        ax.append(z3.Implies(z3.And(xa > 0, xa * xb == 1), va + vb == 0))
    if len(LG) * len(LG) * len(E) <= 600:
        for (a, va), (b, vb) in itertools.permutations(LG, 2):
            for c, vc in E:
                # log X = log Y + t  whenever  X = Y * exp(t)
                ax.append(z3.Implies(z3.And(A(b) > 0, A(a) == A(b) * vc), va == vb + A(c)))
    for (a, va), (b, vb) in itertools.islice(itertools.permutations(LG, 2), max_pairs):
        ax.append(z3.Implies(z3.And(A(b) > 0, A(a) == A(b) * A(b)), va == 2 * vb))
    if len(LG) <= 12:
        for (a, va), (b, vb), (c, vc) in itertools.permutations(LG, 3):
            if b.get_id() < c.get_id():
                ax.append(z3.Implies(z3.And(A(b) > 0, A(c) > 0, A(a) == A(b) * A(c)), va == vb + vc))

    for name in ("erf", "tanh"):
        F = by.get(name, [])
        for a, va in F:
            x = A(a)
            ax += [va > -1, va < 1, z3.Implies(x == 0, va == 0), z3.Implies(x > 0, va > 0), z3.Implies(x < 0, va < 0)]
        for (a, va), (b, vb) in itertools.islice(itertools.combinations(F, 2), max_pairs):
            ax += [z3.Implies(A(a) + A(b) == 0, va + vb == 0), z3.Implies(A(a) < A(b), va < vb),
                   z3.Implies(A(a) > A(b), va > vb)]

    for a, va in by.get("erfcx", []):
        x = A(a)
        ax.append(va > 0)
        for b, vb in E:
            for c, vc in by.get("erf", []):
                ax.append(z3.Implies(z3.And(A(b) == x * x, A(c) == x), va == vb * (1 - vc)))
                ax.append(z3.Implies(z3.And(A(b) + x * x == 0, A(c) == x), va * vb == (1 - vc)))
                ax.append(z3.Implies(z3.And(A(b) + x * x == 0, A(c) + x == 0), va * vb == (1 + vc)))
                ax.append(z3.Implies(z3.And(A(b) == x * x, A(c) + x == 0), va == vb * (1 + vc)))

    AB = by.get("abs", [])
    for a, va in AB:
        x = A(a)
        ax += [va >= 0, z3.Implies(x >= 0, va == x), z3.Implies(x <= 0, va == -x), va * va == x * x]
    for (a, va), (b, vb) in itertools.islice(itertools.combinations(AB, 2), max_pairs):
        ax += [z3.Implies(A(a) + A(b) == 0, va == vb)]

    for name in ("cos", "sin"):
        for a, va in by.get(name, []):
            ax += [va >= -1, va <= 1]
    for a, va in by.get("cos", []):
        for b, vb in by.get("sin", []):
            ax.append(z3.Implies(A(a) == A(b), va * va + vb * vb == 1))
    return ax


def _relevant_const_axioms(cs):
    present = set()
    for c in cs:
        present |= free_vars(c)
    chosen, changed = [], True
    pool = [(a, free_vars(a)) for a in CONST_AXIOMS]
    while changed:
        changed = False
        for a, v in pool:
            if a.get_id() in {x.get_id() for x in chosen}:
                continue
            if v & present:
                chosen.append(a)
                if not v <= present:
                    present |= v
                changed = True
    return chosen


class ModelView:
    def __init__(self, model, ab):
        self.model, self.ab = model, ab

    def value(self, expr):
        """float value of an (un-abstracted) term under the model"""
        if z3.is_fp(expr):
            from .fp import fp_model_value
            return fp_model_value(self.model, expr)
        return z3num_to_float(self.model.eval(self.ab(expr), model_completion=True))

    def uf_table(self, name):
        rows = []
        for a, v in self.ab.sub:
            if a.decl().name() == name:
                try:
                    rows.append(([self.value(a.arg(i)) for i in range(a.num_args())], self.value(a)))
                except Exception:  # noqa: BLE001
                    pass
        return rows


def _mk_solver(has_int, timeout_ms):
    if has_int:
        s = z3.Solver()
    else:
        s = z3.Tactic("qfnra-nlsat").solver()
    s.set("timeout", int(timeout_ms))
    return s


def solve(constraints, timeout_ms=20000, want_model=True, extra_axioms=(), use_axioms=True):
    """decide satisfiability of the conjunction.  returns (status, ModelView|None)"""
    t0 = time.time()
    cs = [c for c in constraints]
    ab = Abstraction(cs + list(extra_axioms), merge=use_axioms)
    abstracted = [ab(c) for c in cs]
    # cheap syntactic exits
    simp = []
    for c in abstracted:
        c2 = z3.simplify(c)
        if z3.is_false(c2):
            STATS["queries"] += 1
            STATS["unsat"] += 1
            STATS["solver_s"] += time.time() - t0
            return "unsat", None
        if not z3.is_true(c2):
            simp.append(c2)
    s = _mk_solver(ab.has_int, timeout_ms)
    for c in simp:
        s.add(c)
    if use_axioms:
        for a in axioms(ab):
            s.add(a)
    for a in extra_axioms:
        s.add(ab(a))
    for a in _relevant_const_axioms(simp):
        s.add(a)
    r = s.check()
    st = str(r)
    if st == "unknown" and not ab.has_int:
        # second opinion from the default strategy with what is left of the budget
        left = timeout_ms - (time.time() - t0) * 1000
        if left > 500:
            s2 = z3.Solver()
            s2.set("timeout", int(left))
            for c in s.assertions():
                s2.add(c)
            r2 = s2.check()
            if str(r2) != "unknown":
                s, st = s2, str(r2)
    STATS["queries"] += 1
    STATS[st] += 1
    STATS["solver_s"] += time.time() - t0
    if st == "sat" and want_model:
        return st, ModelView(s.model(), ab)
    return st, None


_vars_cache = {}


def free_vars(e):
    """ids of the uninterpreted constants occurring in e"""
    i = e.get_id()
    if i in _vars_cache:
        return _vars_cache[i][1]
    out = set()
    seen = set()
    stack = [e]
    while stack:
        x = stack.pop()
        xi = x.get_id()
        if xi in seen:
            continue
        seen.add(xi)
        if z3.is_const(x):
            if x.decl().kind() == z3.Z3_OP_UNINTERPRETED:
                out.add(xi)
        else:
            stack.extend(x.children())
    out = frozenset(out)
    _vars_cache[i] = (e, out)  # keep e alive: z3 recycles ast ids of collected terms
    return out


def prove(hyps, neg, timeout_ms=20000, pairs=None):
    """decide hyps & neg.  Sound staging: `unsat` from a *subset* of the hypotheses is `unsat` of
    the whole; `sat` is only reported from the full set.  returns (status, ModelView|None, stage)"""
    t0 = time.time()
    if pairs:
        # identity fast path: both sides of every claimed equality have the same rational normal
        # form over the abstracted atoms (hypothesis-free, sound wherever the divisions are defined)
        from .ratform import is_identically_zero
        ab = Abstraction(list(hyps) + [neg])
        rel = [(v, ab(a.arg(0))) for a, v in ab.atoms if a.decl().name() == "sqrt"]
        if all(is_identically_zero(ab(a) - ab(b), rel) for a, b in pairs):
            STATS["queries"] += 1
            STATS["unsat"] += 1
            STATS["solver_s"] += time.time() - t0
            return "unsat", None, "rational-normal-form"
    gv = free_vars(neg)
    hv = [free_vars(h) for h in hyps]
    stage0 = [h for h, v in zip(hyps, hv) if v and v <= gv]
    stage1 = [h for h, v in zip(hyps, hv) if v & gv]
    plans = []
    if len(stage0) < len(hyps):
        plans.append(("within-goal-variables", stage0, 0.15))
    if len(stage0) < len(stage1) < len(hyps):
        plans.append(("sharing-a-variable", stage1, 0.25))
    for name, hs, frac in plans:
        st, _ = solve(hs + [neg], timeout_ms=max(500, int(timeout_ms * frac)), want_model=False)
        if st == "unsat":
            return "unsat", None, name
    left = max(1000, timeout_ms - int((time.time() - t0) * 1000))
    st, mv = solve(list(hyps) + [neg], timeout_ms=left)
    return st, mv, "all-hypotheses"


def to_smt2(constraints, max_len=4000):
    """SMT-LIB text of the abstracted query (for evidence samples)"""
    ab = Abstraction(list(constraints))
    s = z3.Solver()
    for c in constraints:
        s.add(ab(c))
    txt = s.to_smt2()
    return txt if len(txt) <= max_len else txt[:max_len] + f"\n; ... truncated ({len(txt)} chars)"
