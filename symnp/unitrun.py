"""runs one unit in a fresh interpreter (fresh import of /repo) and writes its JSON result"""
import importlib
import json
import sys


def main():
    prop, uname, tier, seed, outfile = sys.argv[1:6]
    from . import harness
    importlib.import_module(f"harness.{prop.lower()}")
    us = [u for u in harness.REGISTRY.get(prop, []) if u.name == uname]
    if not us:
        print(f"unit {uname} not found")
        return 3
    res = harness.run_unit(us[0], tier=tier, seed=int(seed))
    json.dump(res, open(outfile, "w"))
    return 0


if __name__ == "__main__":
    sys.exit(main())
