"""deterministic pseudo-random evaluation of z3 real terms at a fixed rational point.
Used only to *choose* canonical orientations / merge candidates; every use is either an
identity-preserving rewrite (exp(-t) = 1/exp(t)) or is confirmed symbolically."""
import hashlib
from fractions import Fraction

import z3

_memo = {}


def _h(*parts):
    d = hashlib.sha256("|".join(str(p) for p in parts).encode()).digest()
    n = int.from_bytes(d[:6], "big")
    return Fraction(n % 9973 + 1, 1009) - Fraction(9973, 2018) + Fraction(1, 7919)  # roughly in (-5, 5), never 0


def fingerprint(e):
    i = e.get_id()
    if i in _memo:
        return _memo[i][1]
    r = _fp(e)
    _memo[i] = (e, r)
    return r


def _fp(e):
    if z3.is_rational_value(e):
        return Fraction(e.numerator_as_long(), e.denominator_as_long())
    if z3.is_int_value(e):
        return Fraction(e.as_long())
    if z3.is_const(e):
        if z3.is_bool(e):
            return None
        return _h("c", e.decl().name())
    k = e.decl().kind()
    ch = [fingerprint(c) for c in e.children()]
    if k == z3.Z3_OP_ITE:
        return None
    if any(c is None for c in ch):
        return None
    if k == z3.Z3_OP_ADD:
        return sum(ch, Fraction(0))
    if k == z3.Z3_OP_SUB:
        r = ch[0]
        for c in ch[1:]:
            r -= c
        return r
    if k == z3.Z3_OP_UMINUS:
        return -ch[0]
    if k == z3.Z3_OP_MUL:
        r = Fraction(1)
        for c in ch:
            r *= c
        return r
    if k == z3.Z3_OP_DIV:
        if ch[1] == 0:
            return None
        return ch[0] / ch[1]
    if k == z3.Z3_OP_POWER:
        if ch[1].denominator == 1 and abs(ch[1]) <= 12 and not (ch[0] == 0 and ch[1] < 0):
            return ch[0] ** int(ch[1])
        return None
    if k == z3.Z3_OP_TO_REAL:
        return ch[0]
    if k == z3.Z3_OP_UNINTERPRETED and e.decl().name() == "abs":
        return abs(ch[0])
    if k == z3.Z3_OP_UNINTERPRETED:
        # limit the size of the rationals fed to the hash
        return _h("f", e.decl().name(), *[(c.numerator % (1 << 61), c.denominator % (1 << 61)) for c in ch])
    return None
