"""deterministic pseudo-random evaluation of z3 real terms in the prime field F_P (P = 2^61-1).
Field arithmetic keeps algebraic relations (sqrt(u)^2 = u, |x|^2 = x^2) exact, so equal rational
functions always get equal fingerprints.  Used only as a *filter* / to choose canonical
orientations; every merge is confirmed symbolically (ratform), every orientation choice is an
identity-preserving rewrite.  `fingerprint(e)` returns an int in [0, P) or None."""
import hashlib

import z3

P = (1 << 61) - 1
_memo = {}
ATOM_FP = {}  # id of an abstraction atom -> (atom, fingerprint of the application it stands for)


def _h(*parts):
    d = hashlib.sha256("|".join(str(p) for p in parts).encode()).digest()
    return int.from_bytes(d[:8], "big") % (P - 3) + 2


def neg_oriented(v):
    """pseudo-sign: exactly one of v, -v (v != 0) is 'negative'"""
    return v > P // 2


def fingerprint(e):
    i = e.get_id()
    if i in _memo:
        return _memo[i][1]
    r = _fp(e)
    _memo[i] = (e, r)
    return r


def _inv(v):
    return pow(v, P - 2, P)


def _fp(e):
    if z3.is_rational_value(e):
        d = e.denominator_as_long() % P
        if d == 0:
            return None
        return (e.numerator_as_long() % P) * _inv(d) % P
    if z3.is_int_value(e):
        return e.as_long() % P
    if z3.is_const(e):
        if z3.is_bool(e):
            return None
        if e.get_id() in ATOM_FP:
            return ATOM_FP[e.get_id()][1]
        return _h("c", e.decl().name())
    k = e.decl().kind()
    if k == z3.Z3_OP_ITE:
        return None
    ch = [fingerprint(c) for c in e.children()]
    if any(c is None for c in ch):
        return None
    if k == z3.Z3_OP_ADD:
        return sum(ch) % P
    if k == z3.Z3_OP_SUB:
        r = ch[0]
        for c in ch[1:]:
            r -= c
        return r % P
    if k == z3.Z3_OP_UMINUS:
        return (-ch[0]) % P
    if k == z3.Z3_OP_MUL:
        r = 1
        for c in ch:
            r = r * c % P
        return r
    if k == z3.Z3_OP_DIV:
        if ch[1] == 0:
            return None
        return ch[0] * _inv(ch[1]) % P
    if k == z3.Z3_OP_POWER:
        ex = e.arg(1)
        if z3.is_rational_value(ex) and ex.denominator_as_long() == 1:
            n = ex.numerator_as_long()
            if n >= 0:
                return pow(ch[0], n, P)
            if ch[0] == 0:
                return None
            return pow(_inv(ch[0]), -n, P)
        return None
    if k == z3.Z3_OP_TO_REAL:
        return ch[0]
    if k == z3.Z3_OP_UNINTERPRETED:
        n = e.decl().name()
        if n == "abs":
            return min(ch[0], (P - ch[0]) % P)
        if n == "sqrt":
            r = pow(ch[0], (P + 1) // 4, P)
            if r * r % P != ch[0]:
                return None  # not a quadratic residue at this point
            return min(r, P - r)
        return _h("f", n, *ch)
    return None
