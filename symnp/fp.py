"""IEEE-754 double precision proxies: the real numpy code runs on object arrays of SymFP (z3 FloatingPoint terms,
round-to-nearest-even), so rounding is part of the model.  Only + - * / sqrt abs neg and comparisons exist (what z3's
FP theory decides by bit-blasting); transcendental functions are not available in this mode.  Used for small kernels
whose property is about exact float identities (e.g. "the end points are sample values")."""
import struct

import numpy as np
import z3

from .core import SymBool, SymReal, Realification

F64 = z3.Float64()
RNE = z3.RNE()


def _nd(o):
    return isinstance(o, np.ndarray)


def fpv(o):
    if isinstance(o, SymFP):
        return o.e
    if isinstance(o, (bool, np.bool_)):
        return z3.FPVal(float(o), F64)
    if isinstance(o, (int, float, np.floating, np.integer)):
        return z3.FPVal(float(o), F64)
    if isinstance(o, SymReal):
        raise TypeError("real-valued and IEEE proxies cannot be mixed")
    raise TypeError(f"cannot use {type(o).__name__} as an IEEE double")


class SymFP:
    __slots__ = ("e",)
    __array_priority__ = 1000

    def __init__(self, e):
        self.e = e

    def __repr__(self):
        s = str(self.e)
        return f"FP({s if len(s) < 80 else s[:77] + '...'})"

    def _bin(s, o, f, swap=False):
        if _nd(o):
            return NotImplemented
        b = fpv(o)
        return SymFP(f(RNE, b, s.e) if swap else f(RNE, s.e, b))

    def __add__(s, o):
        return s._bin(o, z3.fpAdd)

    def __radd__(s, o):
        return s._bin(o, z3.fpAdd, True)

    def __sub__(s, o):
        return s._bin(o, z3.fpSub)

    def __rsub__(s, o):
        return s._bin(o, z3.fpSub, True)

    def __mul__(s, o):
        return s._bin(o, z3.fpMul)

    def __rmul__(s, o):
        return s._bin(o, z3.fpMul, True)

    def __truediv__(s, o):
        return s._bin(o, z3.fpDiv)

    def __rtruediv__(s, o):
        return s._bin(o, z3.fpDiv, True)

    def __neg__(s):
        return SymFP(z3.fpNeg(s.e))

    def __pos__(s):
        return s

    def __abs__(s):
        return SymFP(z3.fpAbs(s.e))

    def sqrt(s):
        return SymFP(z3.fpSqrt(RNE, s.e))

    def _cmp(s, o, f):
        if _nd(o):
            return NotImplemented
        return SymBool(f(s.e, fpv(o)))

    def __lt__(s, o):
        return s._cmp(o, z3.fpLT)

    def __le__(s, o):
        return s._cmp(o, z3.fpLEQ)

    def __gt__(s, o):
        return s._cmp(o, z3.fpGT)

    def __ge__(s, o):
        return s._cmp(o, z3.fpGEQ)

    def __eq__(s, o):
        if _nd(o):
            return NotImplemented
        return SymBool(z3.fpEQ(s.e, fpv(o)))

    def __ne__(s, o):
        if _nd(o):
            return NotImplemented
        return SymBool(z3.Not(z3.fpEQ(s.e, fpv(o))))

    __hash__ = object.__hash__

    def __float__(s):
        raise Realification("float() of a symbolic IEEE value")

    def __int__(s):
        raise Realification("int() of a symbolic IEEE value")

    def __bool__(s):
        return bool(SymBool(z3.Not(z3.fpIsZero(s.e))))

    def copy(s):
        return s


def is_finite(e):
    return z3.And(z3.Not(z3.fpIsNaN(e)), z3.Not(z3.fpIsInf(e)))


def fp_model_value(model, c):
    bv = model.eval(z3.fpToIEEEBV(c), model_completion=True)
    bv = z3.simplify(bv)
    return struct.unpack("<d", struct.pack("<Q", bv.as_long()))[0]
