"""symbolic differentiation over z3 real terms (textbook rules; uninterpreted user functions get
automatically introduced partial-derivative function symbols `<f>_d<k>`)."""
import z3

from .core import RS, SQRTPI, FRAC_DEFS
from .funcs import UF, is_uf, exp_term

# user-registered derivative rules: name -> fn(app) -> [partial wrt arg k]
DERIV = {}
ZERO = z3.RealVal(0)
ONE = z3.RealVal(1)


def _z(e):
    return z3.is_rational_value(e) and e.numerator_as_long() == 0


def _add(terms):
    terms = [t for t in terms if not _z(t)]
    if not terms:
        return ZERO
    if len(terms) == 1:
        return terms[0]
    return z3.Sum(terms)


def _mul(a, b):
    if _z(a) or _z(b):
        return ZERO
    if z3.is_rational_value(a) and a.numerator_as_long() == 1 and a.denominator_as_long() == 1:
        return b
    if z3.is_rational_value(b) and b.numerator_as_long() == 1 and b.denominator_as_long() == 1:
        return a
    return a * b


def partials(e):
    """partial-derivative applications of a user UF application"""
    n = e.decl().name()
    if n in DERIV:
        return DERIV[n](e)
    k = e.num_args()
    return [z3.Function(f"{n}_d{i}", *([RS] * k), RS)(*e.children()) for i in range(k)]


def diff(e, x, _memo=None):
    memo = {} if _memo is None else _memo
    key = e.get_id()
    if key in memo:
        return memo[key][1]
    r = _diff(e, x, memo)
    memo[key] = (e, r)
    return r


def _diff(e, x, memo):
    if z3.is_rational_value(e) or z3.is_int_value(e):
        return ZERO
    if e.eq(x):
        return ONE
    if z3.is_const(e):
        if e.get_id() in FRAC_DEFS:  # fractional part of a floor quotient: locally a/b - const
            return diff(FRAC_DEFS[e.get_id()][1], x, memo)
        return ZERO
    k = e.decl().kind()
    ch = e.children()
    d = lambda c: diff(c, x, memo)  # noqa: E731
    if k == z3.Z3_OP_ADD:
        return _add([d(c) for c in ch])
    if k == z3.Z3_OP_SUB:
        r = d(ch[0])
        for c in ch[1:]:
            dc = d(c)
            if not _z(dc):
                r = (-dc) if _z(r) else r - dc
        return r
    if k == z3.Z3_OP_UMINUS:
        dc = d(ch[0])
        return ZERO if _z(dc) else -dc
    if k == z3.Z3_OP_MUL:
        tot = []
        for i in range(len(ch)):
            di = d(ch[i])
            if _z(di):
                continue
            t = di
            for j in range(len(ch)):
                if j != i:
                    t = _mul(t, ch[j])
            tot.append(t)
        return _add(tot)
    if k == z3.Z3_OP_DIV:
        a, b = ch
        da, db = d(a), d(b)
        if _z(db):
            return ZERO if _z(da) else da / b
        return (_mul(da, b) - _mul(a, db)) / (b * b)
    if k == z3.Z3_OP_POWER:
        a, b = ch
        if z3.is_rational_value(b):
            da = d(a)
            if _z(da):
                return ZERO
            n = z3.RealVal(f"{b.numerator_as_long()}/{b.denominator_as_long()}")
            return _mul(n * (a ** (b - 1)), da)
        raise NotImplementedError("symbolic exponent in POWER")
    if k == z3.Z3_OP_ITE:
        a, b = d(ch[1]), d(ch[2])
        if _z(a) and _z(b):
            return ZERO
        return z3.If(ch[0], a, b)
    if k == z3.Z3_OP_TO_REAL:
        return ZERO  # floor quotients are locally constant
    if k == z3.Z3_OP_UNINTERPRETED:
        n = e.decl().name()
        if n in UF and n not in DERIV:
            a = ch[0]
            da = d(a)
            if _z(da):
                return ZERO
            if n == "exp":
                return _mul(e, da)
            if n == "log":
                return da / a
            if n == "sqrt":
                return da / (2 * e)
            if n == "erf":
                return _mul((2 / SQRTPI) * exp_term(-(a * a)), da)
            if n == "abs":
                return _mul(z3.If(a >= 0, z3.RealVal(1), z3.RealVal(-1)), da)
            if n == "tanh":
                return _mul(1 - e * e, da)
            if n == "cos":
                return _mul(-UF["sin"](a), da)
            if n == "sin":
                return _mul(UF["cos"](a), da)
            if n == "erfcx":
                # d/dx erfcx(x) = 2 x erfcx(x) - 2/sqrt(pi)
                return _mul(2 * a * e - 2 / SQRTPI, da)
        parts = partials(e)
        return _add([_mul(p, d(c)) for p, c in zip(parts, ch)])
    raise NotImplementedError(f"diff: {e.decl()}")


def contains(e, x, _memo=None):
    memo = {} if _memo is None else _memo
    i = e.get_id()
    if i in memo:
        return memo[i]
    r = e.eq(x) or any(contains(c, x, memo) for c in e.children())
    memo[i] = r
    return r
