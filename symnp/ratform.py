"""rational-function normal form of (abstracted) z3 real terms with factored denominators, used
as a fast path for identity obligations: a == b holds wherever defined if the numerator of
a - b normalises (z3 sum-of-monomials form) to 0."""
import z3

MAX_NODES = 200000


class Give(Exception):
    pass


def _som(e):
    """z3's sum-of-monomials normal form; one pass does not always merge like monomials whose factors
    arrive in different order, so iterate to a fixpoint"""
    for _ in range(4):
        y = z3.simplify(e, som=True, som_blowup=10000000)
        if y.eq(e):
            break
        e = y
    return e


class Rat:
    __slots__ = ("num", "den")

    def __init__(self, num, den=None):
        self.num = num
        self.den = den or {}  # key -> [expr, multiplicity]


def _key(e):
    s = _som(e)
    return s.get_id(), s


def _den_prod(den, skip=None):
    out = None
    for k, (e, m) in den.items():
        mm = m - (skip.get(k, [None, 0])[1] if skip else 0)
        for _ in range(max(mm, 0)):
            out = e if out is None else out * e
    return out


def _mul(a, b):
    if a is None:
        return b
    if b is None:
        return a
    return a * b


def _addden(d1, d2):
    out = {k: [e, m] for k, (e, m) in d1.items()}
    for k, (e, m) in d2.items():
        if k in out:
            out[k][1] = max(out[k][1], m)
        else:
            out[k] = [e, m]
    return out


def _missing(lcm, den):
    out = None
    for k, (e, m) in lcm.items():
        have = den.get(k, [None, 0])[1]
        for _ in range(m - have):
            out = e if out is None else out * e
    return out


def ratform(e, memo=None):
    memo = {} if memo is None else memo
    i = e.get_id()
    if i in memo:
        return memo[i][1]
    r = _rf(e, memo)
    memo[i] = (e, r)
    return r


def _rf(e, memo):
    if z3.is_rational_value(e) or z3.is_const(e):
        return Rat(e)
    k = e.decl().kind()
    ch = e.children()
    if k == z3.Z3_OP_UNINTERPRETED:
        return Rat(e)  # opaque leaf (identical applications are the same hash-consed term)
    if k == z3.Z3_OP_ADD or k == z3.Z3_OP_SUB:
        parts = [ratform(c, memo) for c in ch]
        lcm = {}
        for p in parts:
            lcm = _addden(lcm, p.den)
        tot = None
        for idx, p in enumerate(parts):
            t = _mul(p.num, _missing(lcm, p.den))
            if tot is None:
                tot = t
            elif k == z3.Z3_OP_SUB and idx > 0:
                tot = tot - t
            else:
                tot = tot + t
        return Rat(tot, lcm)
    if k == z3.Z3_OP_UMINUS:
        p = ratform(ch[0], memo)
        return Rat(-p.num, p.den)
    if k == z3.Z3_OP_MUL:
        num, den = None, {}
        for c in ch:
            p = ratform(c, memo)
            num = _mul(num, p.num)
            for kk, (ee, m) in p.den.items():
                if kk in den:
                    den[kk][1] += m
                else:
                    den[kk] = [ee, m]
        return Rat(num, den)
    if k == z3.Z3_OP_DIV:
        a, b = ratform(ch[0], memo), ratform(ch[1], memo)
        num = _mul(a.num, _den_prod(b.den))
        den = {kk: [ee, m] for kk, (ee, m) in a.den.items()}
        if not z3.is_rational_value(b.num):
            kk, ss = _key(b.num)
            if kk in den:
                den[kk][1] += 1
            else:
                den[kk] = [ss, 1]
        else:
            num = num / b.num
        return Rat(num, den)
    if k == z3.Z3_OP_POWER and z3.is_rational_value(ch[1]) and ch[1].denominator_as_long() == 1:
        n = ch[1].numerator_as_long()
        p = ratform(ch[0], memo)
        if n >= 0:
            num = z3.RealVal(1)
            for _ in range(n):
                num = num * p.num
            return Rat(num, {kk: [ee, m * n] for kk, (ee, m) in p.den.items()})
        raise Give()
    raise Give()


def _is_zero_val(z):
    return z3.is_rational_value(z) and z.numerator_as_long() == 0


def _degree_split(poly, s):
    """returns {k: coefficient term} with poly == sum_k coeff_k * s^k (poly: polynomial term)"""
    if poly.eq(s):
        return {1: z3.RealVal(1)}
    if z3.is_app(poly):
        kind = poly.decl().kind()
        if kind == z3.Z3_OP_ADD:
            out = {}
            for c in poly.children():
                for k, v in _degree_split(c, s).items():
                    out[k] = v if k not in out else out[k] + v
            return out
        if kind == z3.Z3_OP_MUL:
            out = {0: z3.RealVal(1)}
            for c in poly.children():
                d = _degree_split(c, s)
                nxt = {}
                for k1, v1 in out.items():
                    for k2, v2 in d.items():
                        t = v1 * v2
                        nxt[k1 + k2] = t if (k1 + k2) not in nxt else nxt[k1 + k2] + t
                out = nxt
            return out
        if kind == z3.Z3_OP_POWER and z3.is_rational_value(poly.arg(1)) and poly.arg(1).denominator_as_long() == 1:
            n = poly.arg(1).numerator_as_long()
            base = _degree_split(poly.arg(0), s)
            if list(base.keys()) == [0]:
                return {0: poly}
            if n >= 0:
                out = {0: z3.RealVal(1)}
                for _ in range(n):
                    nxt = {}
                    for k1, v1 in out.items():
                        for k2, v2 in base.items():
                            t = v1 * v2
                            nxt[k1 + k2] = t if (k1 + k2) not in nxt else nxt[k1 + k2] + t
                    out = nxt
                return out
            raise Give()
        if kind == z3.Z3_OP_UMINUS:
            return {k: -v for k, v in _degree_split(poly.arg(0), s).items()}
        if kind == z3.Z3_OP_SUB:
            out = dict(_degree_split(poly.arg(0), s))
            for c in poly.children()[1:]:
                for k, v in _degree_split(c, s).items():
                    out[k] = -v if k not in out else out[k] - v
            return out
    return {0: poly}


def is_identically_zero(e, sqrt_rel=()):
    """True if the numerator of e's rational normal form is the zero polynomial, modulo the
    relations s^2 == u for the given (s, u) pairs (s an atom standing for sqrt(u)).  Sound:
    e == 0 wherever every division in e is defined and every u >= 0."""
    try:
        r = ratform(e)
        z = _som(r.num)
        if _is_zero_val(z):
            return True
        rel = list(sqrt_rel)
        while rel:
            s, u = rel.pop()  # outermost first
            from .solve import free_vars
            if s.get_id() not in free_vars(z):
                continue
            parts = _degree_split(z, s)
            even, odd = [], []
            for k, c in parts.items():
                t = c
                for _ in range(k // 2):
                    t = t * u
                (even if k % 2 == 0 else odd).append(t)
            return all(is_identically_zero(z3.Sum(x) if len(x) > 1 else x[0], rel) for x in (even, odd) if x)
        return False
    except (Give, z3.Z3Exception, RecursionError):
        return False
