"""pyint — integer control-flow encoder: interprets the AST of a (real, current) method over z3
integers with loop summarisation, so that step-count arithmetic is decided for *all* values of a
symbolic loop bound rather than for the handful a path-forking executor can unroll.

Supported subset (what MarkovChain.advance / ParallelTempering.advance use): assignments,
+ - * // %, comparisons, if/else (forked), `for v in range(e)` with a body, list-comprehension
statements over range(e), expression statements calling `self.<counter method>(args)` (modelled as
counter increments), and calls listed as no-ops (progress printing, time(), stdout writes).

Loop summarisation lemma (the only non-solver step): a `for` loop over range(N) whose body adds a
loop-invariant amount c to each counter (c does not mention the loop variable, the counters or
any variable assigned in the body) adds c * max(N, 0) in total.
"""
import ast
import inspect
import textwrap

import z3


class Unsupported(Exception):
    pass


class Path:
    def __init__(self, env, counters, pc):
        self.env, self.counters, self.pc = dict(env), dict(counters), list(pc)


def _names(node):
    return {n.id for n in ast.walk(node) if isinstance(n, ast.Name)}


def _assigned(stmts):
    out = set()
    for s in stmts:
        for n in ast.walk(s):
            if isinstance(n, ast.Assign):
                for t in n.targets:
                    out |= _names(t)
            if isinstance(n, ast.AugAssign):
                out |= _names(n.target)
    return out


class Interp:
    def __init__(self, counter_calls, noop_prefixes=("self.ProgressPrinter", "sys.stdout", "time", "str", "int")):
        """counter_calls: {'self.take_step': lambda args: {'steps': 1}, ...} -> increments per call"""
        self.counter_calls = counter_calls
        self.noop = noop_prefixes
        self.fresh = 0
        self.lemma_uses = 0
        self.owner = None
        self.depth = 0

    # ---- expressions
    def expr(self, node, env):
        if isinstance(node, ast.Constant):
            if isinstance(node.value, bool):
                return node.value
            if isinstance(node.value, int):
                return node.value
            return ("opaque", node.value)
        if isinstance(node, ast.Name):
            if node.id in env:
                return env[node.id]
            return ("opaque", node.id)
        if isinstance(node, ast.Attribute) and isinstance(node.value, ast.Name) and node.value.id == "self" and self.owner is not None:
            v = inspect.getattr_static(self.owner, node.attr, None)    # class-level integer constants
            if isinstance(v, int) and not isinstance(v, bool):
                return v
            return ("opaque", "self." + node.attr)
        if isinstance(node, ast.BinOp):
            a, b = self.expr(node.left, env), self.expr(node.right, env)
            if isinstance(a, tuple) or isinstance(b, tuple):
                return ("opaque", "binop")
            if isinstance(node.op, ast.Add):
                return a + b
            if isinstance(node.op, ast.Sub):
                return a - b
            if isinstance(node.op, ast.Mult):
                return a * b
            if isinstance(node.op, ast.FloorDiv):
                if isinstance(a, int) and isinstance(b, int):
                    return a // b
                if z3.is_expr(a) and z3.is_expr(b) and a.eq(b):
                    return z3.IntVal(1)  # x // x for x != 0 (checked by the caller's path condition)
                return a / b  # z3 Int division == floor division for positive divisors (asserted by callers)
            if isinstance(node.op, ast.Mod):
                if isinstance(a, int) and isinstance(b, int):
                    return a % b
                if z3.is_expr(a) and z3.is_expr(b) and a.eq(b):
                    return z3.IntVal(0)
                return a % b
            return ("opaque", "binop")
        if isinstance(node, ast.IfExp):
            c = self.expr(node.test, env)
            a, b = self.expr(node.body, env), self.expr(node.orelse, env)
            if isinstance(c, bool):
                return a if c else b
            if isinstance(c, tuple) or isinstance(a, tuple) or isinstance(b, tuple):
                return ("opaque", "ifexp")
            a2 = z3.IntVal(a) if isinstance(a, int) else a
            b2 = z3.IntVal(b) if isinstance(b, int) else b
            return z3.If(c, a2, b2)
        if isinstance(node, ast.UnaryOp) and isinstance(node.op, ast.USub):
            v = self.expr(node.operand, env)
            return -v if not isinstance(v, tuple) else v
        if isinstance(node, ast.Compare) and len(node.ops) == 1:
            a, b = self.expr(node.left, env), self.expr(node.comparators[0], env)
            if isinstance(a, tuple) or isinstance(b, tuple):
                raise Unsupported("comparison of opaque values")
            op = node.ops[0]
            return {ast.Lt: lambda: a < b, ast.LtE: lambda: a <= b, ast.Gt: lambda: a > b, ast.GtE: lambda: a >= b,
                    ast.Eq: lambda: a == b, ast.NotEq: lambda: a != b}[type(op)]()
        if isinstance(node, ast.Call):
            name = self._callname(node)
            if name in ("max", "min") and len(node.args) == 2 and not node.keywords:
                a, b = self.expr(node.args[0], env), self.expr(node.args[1], env)
                if not isinstance(a, tuple) and not isinstance(b, tuple):
                    if isinstance(a, int) and isinstance(b, int):
                        return max(a, b) if name == "max" else min(a, b)
                    a2 = z3.IntVal(a) if isinstance(a, int) else a
                    b2 = z3.IntVal(b) if isinstance(b, int) else b
                    return z3.If(a2 >= b2, a2, b2) if name == "max" else z3.If(a2 <= b2, a2, b2)
            return ("opaque", "call")
        return ("opaque", type(node).__name__)

    def _callname(self, node):
        try:
            return ast.unparse(node.func)
        except Exception:  # noqa: BLE001
            return ""

    # ---- statements: returns list of paths
    def block(self, stmts, path):
        paths = [path]
        for s in stmts:
            nxt = []
            for p in paths:
                nxt.extend(self.stmt(s, p))
            paths = nxt
        return paths

    def _apply_call(self, call, p):
        name = self._callname(call)
        if name in self.counter_calls:
            args = [self.expr(a, p.env) for a in call.args]
            for k, v in self.counter_calls[name](args).items():
                p.counters[k] = p.counters[k] + v
            return True
        if any(name.startswith(pre) for pre in self.noop):
            return True
        if name.startswith("self.") and self.owner is not None and self.depth < 4:
            # a helper of the same class whose body can be interpreted: inline it (arguments bound by position)
            helper = inspect.getattr_static(self.owner, name[5:], None)
            if helper is None and name[5:].startswith("__"):
                helper = inspect.getattr_static(self.owner, "_" + self.owner.__name__ + name[5:], None)
            is_static = isinstance(helper, staticmethod)
            if is_static:
                helper = helper.__func__
            if helper is not None and inspect.isfunction(helper):
                tree = ast.parse(textwrap.dedent(inspect.getsource(helper))).body[0]
                inner = {self._callname(c) for c in ast.walk(tree) if isinstance(c, ast.Call)}
                if not any(c.startswith("self.") or c in self.counter_calls for c in inner):
                    return True   # formatting / logging helper: touches no counter and calls nothing of the object
                formal = [a.arg for a in tree.args.args][(0 if is_static else 1):]
                if len(formal) == len(call.args) and not call.keywords:
                    env = dict(p.env)
                    for f, a in zip(formal, call.args):
                        env[f] = self.expr(a, p.env)
                    self.depth += 1
                    try:
                        sub = self.block(tree.body, Path(env, p.counters, p.pc))
                    finally:
                        self.depth -= 1
                    if len(sub) != 1:
                        raise Unsupported(f"branching helper {name}")
                    p.counters, p.pc = sub[0].counters, sub[0].pc
                    return True
        return False

    def stmt(self, s, p):
        if isinstance(s, ast.Assign) and len(s.targets) == 1 and isinstance(s.targets[0], ast.Name):
            q = Path(p.env, p.counters, p.pc)
            q.env[s.targets[0].id] = self.expr(s.value, p.env)
            return [q]
        if (isinstance(s, ast.Assign) and len(s.targets) == 1 and isinstance(s.targets[0], ast.Tuple)
                and all(isinstance(t, ast.Name) for t in s.targets[0].elts)):
            names = [t.id for t in s.targets[0].elts]
            v = s.value
            vals = None
            if isinstance(v, ast.Call) and self._callname(v) == "divmod" and len(v.args) == 2 and len(names) == 2:
                fd = ast.BinOp(left=v.args[0], op=ast.FloorDiv(), right=v.args[1])
                md = ast.BinOp(left=v.args[0], op=ast.Mod(), right=v.args[1])
                vals = [self.expr(fd, p.env), self.expr(md, p.env)]
            elif isinstance(v, ast.Tuple) and len(v.elts) == len(names):
                vals = [self.expr(e, p.env) for e in v.elts]
            if vals is not None:
                q = Path(p.env, p.counters, p.pc)
                for nme, val in zip(names, vals):
                    q.env[nme] = val
                return [q]
        if isinstance(s, ast.Expr):
            v = s.value
            if isinstance(v, ast.Constant):
                return [p]  # docstring
            if isinstance(v, ast.Call):
                q = Path(p.env, p.counters, p.pc)
                if self._apply_call(v, q):
                    return [q]
                raise Unsupported(f"call {self._callname(v)}")
            if isinstance(v, ast.ListComp) and len(v.generators) == 1:
                g = v.generators[0]
                loop = ast.For(target=g.target, iter=g.iter, body=[ast.Expr(value=v.elt)], orelse=[])
                return self.stmt(loop, p)
            raise Unsupported(ast.dump(v)[:80])
        if isinstance(s, ast.If):
            c = self.expr(s.test, p.env)
            if isinstance(c, bool):
                return self.block(s.body if c else s.orelse, p)
            a = Path(p.env, p.counters, p.pc + [c])
            b = Path(p.env, p.counters, p.pc + [z3.Not(c)])
            return self.block(s.body, a) + self.block(s.orelse, b)
        if isinstance(s, ast.For) and isinstance(s.iter, ast.Call) and self._callname(s.iter) == "range" and len(s.iter.args) in (1, 2):
            N = self.expr(s.iter.args[-1], p.env)
            if isinstance(N, tuple):
                raise Unsupported("opaque loop bound")
            if len(s.iter.args) == 2:   # range(a, b): b - a trips (the loop variable stays opaque to the body summary)
                A = self.expr(s.iter.args[0], p.env)
                if isinstance(A, tuple):
                    raise Unsupported("opaque loop bound")
                N = N - A
            # summarise: run the body once from symbolic counters
            self.fresh += 1
            base = {k: z3.Int(f"{k}@{self.fresh}") for k in p.counters}
            env = dict(p.env)
            lv = z3.Int(f"{ast.unparse(s.target)}@{self.fresh}")
            if isinstance(s.target, ast.Name):
                env[s.target.id] = lv
            body_paths = self.block(s.body, Path(env, base, []))
            if len(body_paths) != 1:
                raise Unsupported("branching loop body")
            bp = body_paths[0]
            assigned = _assigned(s.body)
            delta = {}
            for k in p.counters:
                d = z3.simplify(bp.counters[k] - base[k]) if z3.is_expr(bp.counters[k]) else bp.counters[k] - base[k]
                if z3.is_expr(d):
                    from symnp.solve import free_vars
                    fv = free_vars(d)
                    bad = {b.get_id() for b in base.values()} | {lv.get_id()}
                    if fv & bad:
                        raise Unsupported("loop body's effect is not loop-invariant")
                delta[k] = d
            for name in assigned:
                if name in p.env and name in bp.env and not _same(p.env[name], bp.env[name]):
                    raise Unsupported(f"loop body reassigns {name}")
            self.lemma_uses += 1
            q = Path(p.env, p.counters, p.pc)
            trips = N if isinstance(N, int) else z3.If(N > 0, N, 0)
            if isinstance(trips, int):
                trips = max(trips, 0)
            for k in q.counters:
                q.counters[k] = q.counters[k] + delta[k] * trips
            return [q]
        if isinstance(s, (ast.Pass,)):
            return [p]
        raise Unsupported(type(s).__name__ + ": " + ast.unparse(s)[:80])


def _same(a, b):
    if z3.is_expr(a) and z3.is_expr(b):
        return a.eq(b)
    return a is b or a == b


def encode_method(fn, params, counter_calls, counters=("steps",)):
    """interpret the body of `fn` with the given symbolic/concrete parameter values.
    returns (paths, interp): each path has .pc (list of z3 Bools) and .counters"""
    src = textwrap.dedent(inspect.getsource(fn))
    tree = ast.parse(src).body[0]
    it = Interp(counter_calls)
    mod = inspect.getmodule(fn)
    qn = getattr(fn, "__qualname__", "").split(".")
    it.owner = getattr(mod, qn[0], None) if len(qn) == 2 and mod is not None else None
    start = Path(dict(params), {k: z3.IntVal(0) for k in counters}, [])
    return it.block(tree.body, start), it
